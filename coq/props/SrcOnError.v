(* SrcOnError — the SDK error commands the C10 theorems are about ARE the current source.
   gen_run_* / gen_*_aliases are regenerated on every run from duckscript_sdk/src/sdk/std/on_error/{on_error,
   exit_on_error, get_last_error, get_last_error_line, get_last_error_source, set_error, trigger_error}/mod.rs,
   on_error/mod.rs (get_value, executed inside its callers) and sdk/std/test/assert_error/mod.rs by the translator
   lib/rs2v.py (lib/gen/onerror_gen.py); SdkErr.run_on_error_cmd / run_exit_on_error / run_set_error / sdk_cmd are
   the hand-written model functions C10 reasons about.  The translation is over the model's types: the command
   sub-state "on_error" is the typed record SdkErr.estate (one field per state key the source uses), the rest of
   the invocation context is Runner.inv / world; condition::is_true is Cond.is_true (tied by SrcCond).  [Some] = the
   translated function does not panic (no `context.arguments[i]` out of bounds).  Property theorems only. *)
From stdpp Require Import gmap.
Require Import DS.Base DS.Cond DS.Runner DS.SdkErr DS.OnErrorGenTie.
Require Import DSG.GenOnErrorFn.

(* on_error: the handler the runner calls for every reported error *)
Theorem Src_onerror_on_error : gen_run_on_error_cmd_understood = true ->
  forall ustate a w, gen_run_on_error_cmd ustate a w = Some (run_on_error_cmd ustate a w).
Proof. exact gen_run_on_error_cmd_eq. Qed.
Print Assumptions Src_onerror_on_error.

Theorem Src_onerror_on_error_dispatch : gen_run_on_error_cmd_understood = true ->
  forall ustate ucmd name a w, In name gen_on_error_aliases ->
    gen_run_on_error_cmd ustate a w = Some (sdk_cmd ustate ucmd name a w).
Proof. exact gen_on_error_dispatch. Qed.
Print Assumptions Src_onerror_on_error_dispatch.

(* exit_on_error / set_exit_on_error *)
Theorem Src_onerror_exit_on_error : gen_run_exit_on_error_understood = true ->
  forall ustate a w, gen_run_exit_on_error ustate a w = Some (run_exit_on_error ustate a w).
Proof. exact gen_run_exit_on_error_eq. Qed.
Print Assumptions Src_onerror_exit_on_error.

Theorem Src_onerror_exit_on_error_dispatch : gen_run_exit_on_error_understood = true ->
  forall ustate ucmd name a w, In name gen_exit_on_error_aliases ->
    gen_run_exit_on_error ustate a w = Some (sdk_cmd ustate ucmd name a w).
Proof. exact gen_exit_on_error_dispatch. Qed.
Print Assumptions Src_onerror_exit_on_error_dispatch.

(* get_last_error / get_last_error_line / get_last_error_source *)
Theorem Src_onerror_get_last_error : gen_run_get_last_error_understood = true ->
  forall ustate (a : inv) (w : world (estate ustate)),
    gen_run_get_last_error ustate a w = Some (Continue (e_error (cst w)), w).
Proof. exact gen_run_get_last_error_eq. Qed.
Print Assumptions Src_onerror_get_last_error.

Theorem Src_onerror_get_last_error_dispatch : gen_run_get_last_error_understood = true ->
  forall ustate ucmd name a w, In name gen_get_last_error_aliases ->
    gen_run_get_last_error ustate a w = Some (sdk_cmd ustate ucmd name a w).
Proof. exact gen_get_last_error_dispatch. Qed.
Print Assumptions Src_onerror_get_last_error_dispatch.

Theorem Src_onerror_get_last_error_line : gen_run_get_last_error_line_understood = true ->
  forall ustate (a : inv) (w : world (estate ustate)),
    gen_run_get_last_error_line ustate a w = Some (Continue (e_line (cst w)), w).
Proof. exact gen_run_get_last_error_line_eq. Qed.
Print Assumptions Src_onerror_get_last_error_line.

Theorem Src_onerror_get_last_error_line_dispatch : gen_run_get_last_error_line_understood = true ->
  forall ustate ucmd name a w, In name gen_get_last_error_line_aliases ->
    gen_run_get_last_error_line ustate a w = Some (sdk_cmd ustate ucmd name a w).
Proof. exact gen_get_last_error_line_dispatch. Qed.
Print Assumptions Src_onerror_get_last_error_line_dispatch.

Theorem Src_onerror_get_last_error_source : gen_run_get_last_error_source_understood = true ->
  forall ustate (a : inv) (w : world (estate ustate)),
    gen_run_get_last_error_source ustate a w = Some (Continue (e_source (cst w)), w).
Proof. exact gen_run_get_last_error_source_eq. Qed.
Print Assumptions Src_onerror_get_last_error_source.

Theorem Src_onerror_get_last_error_source_dispatch : gen_run_get_last_error_source_understood = true ->
  forall ustate ucmd name a w, In name gen_get_last_error_source_aliases ->
    gen_run_get_last_error_source ustate a w = Some (sdk_cmd ustate ucmd name a w).
Proof. exact gen_get_last_error_source_dispatch. Qed.
Print Assumptions Src_onerror_get_last_error_source_dispatch.

(* set_error *)
Theorem Src_onerror_set_error : gen_run_set_error_understood = true ->
  forall ustate a w, gen_run_set_error ustate a w = Some (run_set_error ustate a w).
Proof. exact gen_run_set_error_eq. Qed.
Print Assumptions Src_onerror_set_error.

Theorem Src_onerror_set_error_dispatch : gen_run_set_error_understood = true ->
  forall ustate ucmd name a w, In name gen_set_error_aliases ->
    gen_run_set_error ustate a w = Some (sdk_cmd ustate ucmd name a w).
Proof. exact gen_set_error_dispatch. Qed.
Print Assumptions Src_onerror_set_error_dispatch.

(* trigger_error / assert_error *)
Theorem Src_onerror_trigger_error : gen_run_trigger_error_understood = true ->
  forall ustate (a : inv) (w : world (estate ustate)),
    gen_run_trigger_error ustate a w = Some (Error (match a_args a with m :: _ => m | [] => msg_error end), w).
Proof. exact gen_run_trigger_error_eq. Qed.
Print Assumptions Src_onerror_trigger_error.

Theorem Src_onerror_trigger_error_dispatch : gen_run_trigger_error_understood = true ->
  forall ustate ucmd name a w, In name gen_trigger_error_aliases ->
    gen_run_trigger_error ustate a w = Some (sdk_cmd ustate ucmd name a w).
Proof. exact gen_trigger_error_dispatch. Qed.
Print Assumptions Src_onerror_trigger_error_dispatch.

Theorem Src_onerror_assert_error : gen_run_assert_error_understood = true ->
  forall ustate (a : inv) (w : world (estate ustate)),
    gen_run_assert_error ustate a w = Some (Error (match a_args a with m :: _ => m | [] => msg_assert_failed end), w).
Proof. exact gen_run_assert_error_eq. Qed.
Print Assumptions Src_onerror_assert_error.

Theorem Src_onerror_assert_error_dispatch : gen_run_assert_error_understood = true ->
  forall ustate ucmd name a w, In name gen_assert_error_aliases ->
    gen_run_assert_error ustate a w = Some (sdk_cmd ustate ucmd name a w).
Proof. exact gen_assert_error_dispatch. Qed.
Print Assumptions Src_onerror_assert_error_dispatch.

(* the names the model's dispatcher answers for are exactly (as sets) the aliases the source registers *)
Theorem Src_onerror_sdk_names : gen_run_on_error_cmd_understood = true -> gen_run_exit_on_error_understood = true ->
  gen_run_get_last_error_understood = true -> gen_run_get_last_error_line_understood = true ->
  gen_run_get_last_error_source_understood = true -> gen_run_set_error_understood = true ->
  gen_run_trigger_error_understood = true -> gen_run_assert_error_understood = true ->
  forall name, is_sdk name = str_in name gen_all_aliases.
Proof. exact gen_sdk_names. Qed.
Print Assumptions Src_onerror_sdk_names.
