(* C06 — Conditions: one truthiness rule, and-of-ors grouping, parentheses.
   Property theorems only; every proof is [exact <lemma>]. *)
Require Import DS.Base DS.Cond DS.CondSpec DS.CondProof DS.CondThms.
Require DSG.GenTruth.

(* the regenerated falsy table is the documented one *)
Theorem C06_tables :
  DSG.GenTruth.gen_lowercased = true /\
  (forall s, str_in s DSG.GenTruth.gen_falsy = str_in s [[]; lit_0; lit_false; lit_no]).
Proof. exact gen_truth_wf. Qed.

(* a value is falsy exactly when absent, empty, "0", "false" or "no" (ASCII case-insensitive) *)
Theorem C06_truth : forall v, is_true (Some v) = negb (falsy v).
Proof. exact truth_table. Qed.
Theorem C06_truth_absent : is_true None = false.
Proof. exact truth_absent. Qed.

(* every well-formed statement evaluates to the conjunction of the disjunctions of its atoms,
   groups being atoms evaluated by the same rule, wherever they stand *)
Theorem C06_eval : forall c, wf c -> eval_slice (toks c) = Ok (sem is_true_some c).
Proof. exact eval_slice_sem. Qed.
Theorem C06_and_of_ors : forall c,
  sem is_true_some c = forallb (existsb (sema is_true_some)) (runs c).
Proof. exact (sem_and_of_ors is_true_some). Qed.

(* every token list, well-formed or not, gets a verdict (value or error) *)
Theorem C06_total : forall ts, eval_slice ts <> Fuel.
Proof. exact eval_slice_total. Qed.

(* non-vacuity: the F1 witness is in the domain and evaluates to true *)
Theorem C06_nonvacuous : wf c_f1 /\ eval_slice (toks c_f1) = Ok true.
Proof. exact (conj f1_wf f1_value). Qed.

(* ---- index-faithful model (CondIx.v): the whole argument slice, start_block / index (usize), the
   i32 counter, the recursive call on `&arguments[start_block..index]`, explicit Panic for an
   out-of-range slice, an out-of-bounds index and (overflow-checked profile) i32 overflow.
   The further theorems about it (termination, overflow-checked profile, exactness of the bound,
   eval_condition's dispatch, transfer of C06_eval) are in props/C06ix.v. ------------------------------ *)
Require Import DS.CondIx DS.CondIxProof.

(* default release profile (wrapping i32 arithmetic; what `cargo install` builds):
   EVERY token list, of any length, gets a verdict or an error — never a panic *)
Theorem C06_ix_total : forall ts, eval_slice_ix ts <> IPanic.
Proof. exact eval_slice_ix_total. Qed.

(* the index model equals the suffix model on every token list shorter than 2^31 (the range in which
   the i32 counter cannot overflow), so C06_eval / C06_total transfer to it.
   Full statement `forall ts, eval_slice_ix ts = inj (eval_slice ts)`: FALSE of the faithful model,
   see C06ix.C06_ix_bounds_exact — the length bound is exactly the i32 range of `counter`. *)
Theorem C06_ix_refines : forall ts, (Z.of_nat (length ts) < 2147483648)%Z ->
  eval_slice_ix ts = inj (eval_slice ts).
Proof. exact eval_slice_ix_refines. Qed.
