(* C06 — Conditions: one truthiness rule, and-of-ors grouping, parentheses.
   Property theorems only; every proof is [exact <lemma>]. *)
Require Import DS.Base DS.Cond DS.CondSpec DS.CondProof DS.CondThms.
Require DSG.GenTruth.

(* the regenerated falsy table is the documented one *)
Theorem C06_tables :
  DSG.GenTruth.gen_lowercased = true /\
  (forall s, str_in s DSG.GenTruth.gen_falsy = str_in s [[]; lit_0; lit_false; lit_no]).
Proof. exact gen_truth_wf. Qed.

(* a value is falsy exactly when absent, empty, "0", "false" or "no" (ASCII case-insensitive) *)
Theorem C06_truth : forall v, is_true (Some v) = negb (falsy v).
Proof. exact truth_table. Qed.
Theorem C06_truth_absent : is_true None = false.
Proof. exact truth_absent. Qed.

(* every well-formed statement evaluates to the conjunction of the disjunctions of its atoms,
   groups being atoms evaluated by the same rule, wherever they stand *)
Theorem C06_eval : forall c, wf c -> eval_slice (toks c) = Ok (sem is_true_some c).
Proof. exact eval_slice_sem. Qed.
Theorem C06_and_of_ors : forall c,
  sem is_true_some c = forallb (existsb (sema is_true_some)) (runs c).
Proof. exact (sem_and_of_ors is_true_some). Qed.

(* every token list, well-formed or not, gets a verdict (value or error) *)
Theorem C06_total : forall ts, eval_slice ts <> Fuel.
Proof. exact eval_slice_total. Qed.

(* non-vacuity: the F1 witness is in the domain and evaluates to true *)
Theorem C06_nonvacuous : wf c_f1 /\ eval_slice (toks c_f1) = Ok true.
Proof. exact (conj f1_wf f1_value). Qed.
