(* C10 — Command errors are reported, positioned and survivable (or fatal when asked).
   Property theorems only.  The machine is the runner model (Runner.v) with the SDK's on_error,
   exit_on_error, get_last_error / _line / _source, set_error, trigger_error and assert_error
   (SdkErr.v, a typed record instead of the string-keyed state map); every other command is the
   arbitrary [ucmd].  Statements are for an arbitrary program and an arbitrary reachable
   configuration [c]: a failing command anywhere (top level, function / loop / branch bodies,
   included files) is the instruction at [pc c], whose meta-information is what is reported. *)
From stdpp Require Import gmap.
Require Import DS.Base DS.Cond DS.Runner DS.RunnerSpec DS.SdkErr DS.SdkErrProof DS.SdkErrInst DS.RunnerExamples.
Local Open Scope nat_scope.

Section C10.
Variable ustate : Type.
Variable uexists : ustate -> str -> bool.
Variable ucmd : str -> inv -> world (estate ustate) -> result * world (estate ustate).
Variable ext : nat -> bool.
Variable prog : program.

Notation estate := (estate ustate).
Notation sexists := (sdk_exists ustate uexists).
Notation scmd := (sdk_cmd ustate ucmd).
Notation stp := (step estate sexists scmd ext prog (label_table prog)).
Notation invokes := (invokes estate sexists scmd ext prog).

(* a command (any command) at pc answers Error m.  With exit_on_error off: its output variable is
   "false", the last-error record is (m, source line of pc, source file of pc), the on_error command
   saw exactly those three, everything else is as the command left it, and the run goes on at
   pc + 1.  With exit_on_error on: the run fails with m and the failing instruction's meta. *)
Theorem C10_step : forall c i s k m w',
  invokes c i s k (Error m) w' ->
  (exit_on (cst w') = false ->
   stp c = inl (Config (S (pc c))
                  (World (vars (assign estate w' (s_out s) (Some false_str)))
                         (EState (Some m) (Some (nat_str (default 0 (m_line (i_meta i)))))
                                 (Some (default [] (m_src (i_meta i)))) (e_exit (cst w')) (e_user (cst w')))
                         (halt w'))
                  (S (polls c))
                  (trace c ++ [Event (pc c) [k; Call on_error_name (report_inv m (i_meta i))]]))) /\
  (exit_on (cst w') = true ->
   stp c = inr (FErr (RHandlerCrash (Msg m)) (i_meta i),
                trace c ++ [Event (pc c) [k; Call on_error_name (report_inv m (i_meta i))]])).
Proof.
  intros c i s k m w' H. split.
  - exact (error_step_continue ustate uexists ucmd ext prog c i s k m w' H).
  - exact (error_step_exit ustate uexists ucmd ext prog c i s k m w' H).
Qed.

Theorem C10_output_false : forall (w' : world estate) v,
  vars (assign estate w' (Some v) (Some false_str)) !! v = Some false_str.
Proof. exact (error_step_output ustate). Qed.

(* the queries return the record; trigger_error / assert_error answer Error with their argument *)
Theorem C10_queries : forall a w,
  scmd n_get_last_error a w = (Continue (e_error (cst w)), w) /\
  scmd n_get_last_error_line a w = (Continue (e_line (cst w)), w) /\
  scmd n_get_last_error_source a w = (Continue (e_source (cst w)), w) /\
  scmd n_trigger_error a w = (Error (match a_args a with m :: _ => m | [] => msg_error end), w) /\
  scmd n_assert_error a w = (Error (match a_args a with m :: _ => m | [] => msg_assert_failed end), w).
Proof. intros a w. repeat split. Qed.

(* exit_on_error <v> sets the mode to the truthiness of v (so it can be turned off again) and
   leaves the record and the variables alone *)
Theorem C10_exit_toggle : forall a w v rest, a_args a = v :: rest ->
  exists w', scmd n_exit_on_error a w = (Continue (Some (bool_str (is_true (Some v)))), w') /\
             exit_on (cst w') = is_true (Some v) /\ record (cst w') = record (cst w) /\ vars w' = vars w.
Proof. exact (exit_on_error_set ustate ucmd). Qed.

(* after any successful run the record is the fold of [record_after] over the invocation log:
   only on_error (i.e. reported errors, or a script calling it) and set_error write it, provided
   the other commands leave the record alone *)
Theorem C10_latest :
  (forall name a w r w', is_sdk name = false -> ucmd name a w = (r, w') -> record (cst w') = record (cst w)) ->
  forall w r w' t,
  spec_program estate sexists scmd ext prog w (FOk r w') t ->
  record (cst w') = fold_left record_after (calls_of t) (record (cst w)).
Proof. exact (record_is_fold ustate uexists ucmd ext prog). Qed.

(* hence the latest reported error wins *)
Theorem C10_latest_wins :
  (forall name a w r w', is_sdk name = false -> ucmd name a w = (r, w') -> record (cst w') = record (cst w)) ->
  forall w r w' t l1 l2 m ln src o n,
  spec_program estate sexists scmd ext prog w (FOk r w') t ->
  calls_of t = l1 ++ Call on_error_name (Inv [m; ln; src] o n) :: l2 ->
  forallb (fun k => negb (touches_record k)) l2 = true ->
  record (cst w') = (Some m, Some ln, Some src).
Proof. exact (latest_wins ustate uexists ucmd ext prog). Qed.
End C10.

(* script-implemented commands: an error in the body ends the body's evaluation with that error
   (no on_error call inside, the inner line is dropped) ... *)
Theorem C10_alias_body : forall cstate exists_cmd cmd body line w j wj,
  body_reaches cstate exists_cmd cmd body line w j wj ->
  forall i s m, body !! j = Some i -> i_type i = IScript s ->
  ri_res (run_instruction cstate exists_cmd cmd wj i j) = Error m ->
  exists fuel, forall fo calls, exists fo' calls',
    eval_instructions cstate exists_cmd cmd fuel body line w fo calls =
    Some (EO cstate (Some (Error m)) fo' (ri_w (run_instruction cstate exists_cmd cmd wj i j)) calls').
Proof. exact eval_error_surfaces. Qed.

(* ... and surfaces as the script-implemented command's own error at the caller's pc: C10_step
   applies with the caller's meta-information *)
Theorem C10_alias : forall ustate uexists ucmd ext prog prepare cleanup leaked c i s k r w' fuel amount body calls o m,
  invokes (estate ustate) (sdk_exists ustate uexists) (sdk_cmd ustate ucmd) ext prog c i s k r w' ->
  alias_run (estate ustate) (sdk_exists ustate uexists) (sdk_cmd ustate ucmd) prepare cleanup leaked fuel amount body (c_inv k) (wd c) = Some (r, w', calls) ->
  amount <= length (a_args (c_inv k)) ->
  eval_instructions (estate ustate) (sdk_exists ustate uexists) (sdk_cmd ustate ucmd) fuel body 0 (prepare (a_args (c_inv k)) (wd c)) None [] = Some o ->
  eo_result (estate ustate) o = Some (Error m) -> leaked (wd c) (cleanup (wd c) (eo_w (estate ustate) o)) = false ->
  r = Error m /\
  (exit_on (cst w') = false ->
   step (estate ustate) (sdk_exists ustate uexists) (sdk_cmd ustate ucmd) ext prog (label_table prog) c =
   inl (Config (S (pc c))
          (World (vars (assign (estate ustate) w' (s_out s) (Some false_str)))
                 (EState (Some m) (Some (nat_str (default 0 (m_line (i_meta i)))))
                         (Some (default [] (m_src (i_meta i)))) (e_exit (cst w')) (e_user (cst w')))
                 (halt w'))
          (S (polls c))
          (trace c ++ [Event (pc c) [k; Call on_error_name (report_inv m (i_meta i))]]))) /\
  (exit_on (cst w') = true ->
   step (estate ustate) (sdk_exists ustate uexists) (sdk_cmd ustate ucmd) ext prog (label_table prog) c =
   inr (FErr (RHandlerCrash (Msg m)) (i_meta i),
        trace c ++ [Event (pc c) [k; Call on_error_name (report_inv m (i_meta i))]])).
Proof. exact alias_error_at_caller. Qed.

(* non-vacuity: two errors in sequence (lines 4 and 9 of file "/s"): the queries see the second one,
   both output variables read "false"; after exit_on_error true the next error (line 13) is fatal *)
Theorem C10_nonvacuous :
  (exists c, e_iter 4 ex_sdk_prog [] = Some c /\
             vars (wd c) !! s_e = Some s_m2 /\ vars (wd c) !! s_l = Some [57]%N /\
             vars (wd c) !! s_x = Some false_str /\ vars (wd c) !! s_y = Some false_str) /\
  (exists t, e_run 20 ex_sdk_prog [] = Done (FErr (RHandlerCrash (Msg msg_assert_failed)) (Meta (Some 13) (Some s_src))) t).
Proof. exact (conj ex_sdk_latest ex_sdk_computed). Qed.
