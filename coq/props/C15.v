(* C15 — The command registry is a consistent name/alias map.
   Property theorems only; every proof is [exact <lemma>].
   Model: theories/Registry.v (Commands::{new,set,get,exists,get_for_use,get_all_command_names,
   remove} and the script-level alias / unalias / remove_command / is_command_defined / fn);
   specification: theories/RegistrySpec.v. *)
From stdpp Require Import gmap list sorting.
Require Import DS.Registry DS.RegistrySpec DS.RegistryProof.

(* ---- invariant over all histories -------------------------------------------------------- *)
(* after every history of set/get/exists/get_for_use/get_all_command_names/remove from
   Commands::new(), every alias points to a registered name and is declared by it *)
Theorem C15_inv : forall ops, Inv (run reg_new ops).1.
Proof. exact (fun ops => run_inv ops reg_new inv_new). Qed.
Theorem C15_inv_step : forall r o, Inv r -> Inv (step r o).1.
Proof. exact step_inv. Qed.
(* no alias ever points to a command that is gone *)
Theorem C15_no_dangling : forall ops, NoDangling (run reg_new ops).1.
Proof. exact (fun ops => inv_no_dangling _ (run_inv ops reg_new inv_new)). Qed.

(* ---- refusal ------------------------------------------------------------------------------ *)
(* a refused registration leaves the registry exactly as it was *)
Theorem C15_refuse : forall r n decl r', step r (OSet n decl) = (r', RSet false) -> r' = r.
Proof. exact step_set_refused. Qed.
(* and a registration is refused exactly when its name is a registered name or one of its aliases
   is a registered alias *)
Theorem C15_refuse_iff : forall r n decl, (step r (OSet n decl)).2 = RSet false <-> refused r n decl.
Proof. exact step_set_refused_iff. Qed.
(* the whole effect of `set` as a map expression *)
Theorem C15_accept_spec : forall r n decl,
  match reg_set r n decl with SetOk r' => Some r' | _ => None end = spec_set r n decl.
Proof. exact reg_set_spec. Qed.

(* ---- reachability ------------------------------------------------------------------------- *)
(* immediately after an accepted registration the command is found under its name and under every
   alias it declares *)
Theorem C15_reach : forall r n decl r', reg_set r n decl = SetOk r' ->
  reg_get r' n = Some (n, decl) /\ forall a, a ∈ decl -> reg_get r' a = Some (n, decl).
Proof. exact reg_set_reach. Qed.
(* nothing else changes, except that an alias entry equal to the new NAME is deleted *)
Theorem C15_reach_frame : forall r n decl r', reg_set r n decl = SetOk r' ->
  (forall m, m <> n -> cmds r' !! m = cmds r !! m) /\
  (forall x, x ∉ decl -> x <> n -> als r' !! x = als r !! x) /\
  (n ∉ decl -> als r' !! n = None).
Proof. exact reg_set_frame. Qed.
(* reachability is NOT persistent (the literal reading "stays reachable under its name and every
   alias until removed" is false): a later accepted registration may declare a registered NAME as
   its alias (aliases are only checked against the alias table) and then shadows it, ... *)
Theorem C15_reach_persistent_refuted :
  let r := (run reg_new [OSet n_a []; OSet n_b [n_a]]).1 in
  cmds r !! n_a = Some [] /\ reg_get r n_a = Some (n_b, [n_a]).
Proof. exact reach_persistent_refuted. Qed.
(* ... and a later accepted registration whose NAME is an existing alias takes that alias away *)
Theorem C15_alias_stolen_refuted :
  let r := (run reg_new [OSet n_a [n_x]; OSet n_x []]).1 in
  cmds r !! n_a = Some [n_x] /\ als r !! n_x = None /\ reg_get r n_x = Some (n_x, []).
Proof. exact alias_stolen_refuted. Qed.

(* ---- removal ------------------------------------------------------------------------------ *)
(* remove by name or alias deletes the command and exactly the aliases that point to it *)
Theorem C15_remove : forall r x r', Inv r -> reg_remove r x = (r', true) ->
  let n := resolve r x in
  cmds r' = delete n (cmds r) /\
  forall a, als r' !! a = if decide (als r !! a = Some n) then None else als r !! a.
Proof. exact reg_remove_exact. Qed.
Theorem C15_remove_spec : forall r x, Inv r -> reg_remove r x = spec_remove r x.
Proof. exact reg_remove_spec. Qed.
Theorem C15_remove_false : forall r x r', reg_remove r x = (r', false) -> r' = r /\ reg_get r x = None.
Proof. exact reg_remove_false. Qed.
Theorem C15_remove_iff_exists : forall r x, (reg_remove r x).2 = reg_exists r x.
Proof. exact reg_remove_iff_exists. Qed.
Theorem C15_remove_gone : forall r x r', Inv r -> reg_remove r x = (r', true) ->
  cmds r' !! resolve r x = None /\ forall a, als r' !! a <> Some (resolve r x).
Proof. exact reg_remove_gone. Qed.

(* ---- lookups ------------------------------------------------------------------------------ *)
(* what `get` finds is registered, and was asked for by its name or by an alias it declares *)
Theorem C15_get_declares : forall r x n d, Inv r -> reg_get r x = Some (n, d) ->
  cmds r !! n = Some d /\ (x = n \/ (als r !! x = Some n /\ x ∈ d)).
Proof. exact reg_get_declares. Qed.
Theorem C15_observers_pure : forall r o,
  match o with OSet _ _ | ORemove _ => True | _ => (step r o).1 = r end.
Proof. exact observers_pure. Qed.
(* get_all_command_names: exactly the registered names, strictly increasing — hence independent of
   the hash map's iteration order *)
Theorem C15_names : forall r,
  StronglySorted name_lt (reg_names r) /\ NoDup (reg_names r) /\
  forall n, n ∈ reg_names r <-> is_Some (cmds r !! n).
Proof. exact (fun r => conj (reg_names_strict r) (conj (reg_names_nodup r) (reg_names_elem r))). Qed.
Theorem C15_names_sorted : forall r l,
  StronglySorted name_le l -> NoDup l -> (forall n, n ∈ l <-> is_Some (cmds r !! n)) -> l = reg_names r.
Proof. exact reg_names_unique. Qed.

(* ---- script level ------------------------------------------------------------------------- *)
(* alias / unalias / remove_command / is_command_defined / fn change the registry only through
   set-without-aliases, remove, or deletion of one alias entry *)
Theorem C15_script_change : forall s o, reg_change (sr_reg s) (sr_reg (sstep s o).1).
Proof. exact sstep_change. Qed.
(* so the invariant holds after every script-level history from any consistent registry (e.g. the
   freshly loaded SDK, whose consistency the check evaluates on every run) *)
Theorem C15_script_inv : forall ops s, Inv (sr_reg s) -> Inv (sr_reg (srun s ops).1).
Proof. exact srun_inv. Qed.
(* an erroring script-level command leaves the registry exactly as it was *)
Theorem C15_script_refuse : forall s o, (sstep s o).2 = SErr -> sr_reg (sstep s o).1 = sr_reg s.
Proof. exact sstep_err. Qed.

(* ---- non-vacuity: the F11 history is in the domain and behaves as the property demands ------ *)
Theorem C15_F11_nonvacuous :
  (let r := (run reg_new [OSet n_a [n_x]; OSet n_x []; OSet n_c [n_x]; ORemove n_a]).1 in
   reg_get r n_x = Some (n_c, [n_x]) /\ reg_get r n_a = None) /\
  (exists r x, Inv r /\ reg_remove_pinned r x <> spec_remove r x).
Proof. exact (conj f11_witness f11_pinned_refuted). Qed.
