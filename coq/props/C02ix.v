(* C02ix — further property theorems about the index-faithful binder (ExpansionIx.v); C02_ix_total and
   C02_ix_refines are in props/C02.v.  Property theorems only; every proof is [exact <lemma>]. *)
Require Import DS.Base DS.Parser DS.ParserIx DS.Expansion DS.ExpansionIx DS.ExpansionIxProof.

(* runner.rs::bind_command_arguments over the index-faithful expand_by_wrapper: no panic, and equal to the
   suffix model, for every argument list and every environment *)
Theorem C02_ix_bind_total : forall variables arguments, bind_command_arguments_ix variables arguments <> BPanic.
Proof. exact bind_ix_total. Qed.
Theorem C02_ix_bind_refines : forall variables arguments,
  bind_command_arguments_ix variables arguments = BOk (bind_command_arguments variables arguments).
Proof. exact bind_ix_refines. Qed.
