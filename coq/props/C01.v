(* C01 — A line written with the documented syntax parses back to the same instruction.
   Property theorems only; every proof is [exact <lemma>].
   [render_line i ch] (DS.Render) writes the instruction [i] (optional label, output variable,
   command, argument list) as one line using the free choices [ch] of the documented syntax;
   [wf] / [valid] are the syntax's own side conditions as boolean predicates; [norm i] is the
   instruction the parser is expected to return (Empty when everything is absent, no argument
   list when there are no arguments, the label with its ':' prefix). *)
Require Import DS.Base DS.Parser DS.Render DS.RenderProof.

Theorem C01_line : forall i ch,
  wf i = true -> valid i ch = true -> parse_line (render_line i ch) = POk (norm i).
Proof. exact render_line_parses. Qed.

(* n rendered lines, each terminated by LF or CRLF, optionally followed by a non-empty last line
   without terminator: n (+1) instructions in the same order, the k-th carrying line number k *)
Theorem C01_script : forall items last,
  forallb item_ok items = true -> last_ok last = true ->
  parse_text (render_script items last) = TOk (expect_from 1 (script_instrs items last)).
Proof. exact render_script_parses. Qed.

(* the two characterising facts about argument tokens, for any continuation of the line *)
Theorem C01_quoted_token : forall n a es rest, valid_q a es = true ->
  parse_next_value fl_arg (spaces n ++ c_quote :: emit_str a es ++ c_quote :: rest) = POk (rest, Some a).
Proof. exact pnv_arg_q. Qed.

Theorem C01_unquoted_token : forall n b a ch tl,
  a_quoted ch = false -> valid_arg b a ch = true -> sep_start tl = true ->
  parse_next_value fl_arg (spaces n ++ render_arg a ch ++ tl) = POk (after tl, Some a).
Proof. exact pnv_arg_u. Qed.

(* non-vacuity: a line with label, output, command, an empty quoted argument, a quoted argument
   with a space, an unquoted argument with escapes, a quoted argument beginning with '=', a
   comment and surrounding white space satisfies wf and valid (and is rendered as stated) *)
Theorem C01_nonvacuous :
  wf ex_instr = true /\ valid ex_instr ex_choices = true /\
  render_line ex_instr ex_choices =
    [9; 58;108; 32;32; 111; 61; 32;32; 99; 32; 34;34; 32;32;32; 34;97;32;98;34; 32; 120;92;34;121;92;110;
     32; 34;61;35;34; 32; 35; 32;34;92; 32;13].
Proof. exact ex_in_domain. Qed.
