(* C03 — The runner executes exactly what the command results dictate.
   Property theorems only; every proof is [exact <lemma>].
   Everything is parametric in the commands ([cstate], [exists_cmd], [cmd]) and in the external
   halt oracle [ext]: the statements hold for every command behaviour. *)
From stdpp Require Import gmap.
Require Import DS.Base DS.Runner DS.RunnerSpec DS.RunnerProof DS.RunnerScripted DS.RunnerExamples.
Local Open Scope nat_scope.

Section C03.
Variable cstate : Type.
Variable exists_cmd : cstate -> str -> bool.
Variable cmd : str -> inv -> world cstate -> result * world cstate.
Variable ext : nat -> bool.

(* the label table built by create_runtime is "the last line carrying the label" *)
Theorem C03_labels : forall prog l n, label_table prog !! l = Some n <-> last_label prog l n.
Proof. exact label_table_some. Qed.
Theorem C03_labels_none : forall prog l, label_table prog !! l = None <-> no_label prog l.
Proof. exact label_table_none. Qed.

(* one iteration of run_instructions is exactly one move of the abstract machine *)
Theorem C03_step : forall prog c x,
  step cstate exists_cmd cmd ext prog (label_table prog) c = x <-> spec_step cstate exists_cmd cmd ext prog c x.
Proof. exact (step_iff cstate exists_cmd cmd ext). Qed.

(* every finished run of the model is a run of the abstract machine: same success / failure with
   meta-information, same final context, same sequence of command invocations with arguments *)
Theorem C03_refines : forall prog w fuel f t,
  run cstate exists_cmd cmd ext fuel prog w = Done f t -> spec_program cstate exists_cmd cmd ext prog w f t.
Proof. exact (run_refines cstate exists_cmd cmd ext). Qed.

(* ... and every run of the abstract machine is found by the model with enough fuel *)
Theorem C03_complete : forall prog w f t,
  spec_program cstate exists_cmd cmd ext prog w f t -> exists fuel, run cstate exists_cmd cmd ext fuel prog w = Done f t.
Proof. exact (run_complete cstate exists_cmd cmd ext). Qed.

(* the abstract machine is deterministic: result, context and invocation log are functions of
   the program, the commands and the initial context *)
Theorem C03_spec_det : forall prog w f1 t1 f2 t2,
  spec_program cstate exists_cmd cmd ext prog w f1 t1 -> spec_program cstate exists_cmd cmd ext prog w f2 t2 ->
  f1 = f2 /\ t1 = t2.
Proof. exact (spec_program_det cstate exists_cmd cmd ext). Qed.

(* a failed run carries the meta-information (source line and file) of the instruction that was
   executing, whose index is the last entry of the trace *)
Theorem C03_error_position : forall prog w fuel e m t,
  run cstate exists_cmd cmd ext fuel prog w = Done (FErr e m) t ->
  exists k i ks t0, prog !! k = Some i /\ m = i_meta i /\ t = t0 ++ [Event k ks].
Proof. exact (run_err_position cstate exists_cmd cmd ext). Qed.

(* continue stores the value, or deletes the output variable when there is none; other variables
   are as the command left them; the run moves to the next line *)
Theorem C03_continue_output : forall prog c i s k o w' v,
  invokes cstate exists_cmd cmd ext prog c i s k (Continue o) w' -> s_out s = Some v ->
  exists c', step cstate exists_cmd cmd ext prog (label_table prog) c = inl c' /\ pc c' = S (pc c) /\
             vars (wd c') !! v = o /\ forall v', v' <> v -> vars (wd c') !! v' = vars w' !! v'.
Proof. exact (continue_output cstate exists_cmd cmd ext). Qed.

(* an error result is reported to a registered on_error command as (message, source line, source
   file) at line 0, after the output variable was set to "false"; the run then goes on at the next
   line with whatever the handler left, or fails with the failing instruction's meta-information *)
Theorem C03_error_reported : forall prog c i s k e w',
  invokes cstate exists_cmd cmd ext prog c i s k (Error e) w' -> exists_cmd (cst w') on_error_name = true ->
  let a := Inv [e; nat_str (default 0 (m_line (i_meta i))); default [] (m_src (i_meta i))] None 0 in
  let w1 := assign cstate w' (s_out s) (Some false_str) in
  match step cstate exists_cmd cmd ext prog (label_table prog) c with
  | inl c' => pc c' = S (pc c) /\ wd c' = snd (cmd on_error_name a w1) /\
              trace c' = trace c ++ [Event (pc c) [k; Call on_error_name a]]
  | inr (f, t) => (exists e', f = FErr e' (i_meta i)) /\ t = trace c ++ [Event (pc c) [k; Call on_error_name a]]
  end.
Proof. exact (error_reported cstate exists_cmd cmd ext). Qed.
End C03.

(* non-vacuity: a three-line program whose abstract run visits indices 0 1 2 1 2 (duplicate label,
   later line wins), reports the error at index 1 to on_error, and fails with exit code 3 carrying
   source line 3 *)
Theorem C03_nonvacuous :
  exists t, spec_program sstate s_exists s_cmd_run (fun _ => false) ex_prog ex_world
              (FErr (RExitCode 3) (Meta (Some 3) None)) t /\ ex_pcs t = [0; 1; 2; 1; 2]%nat.
Proof. exact ex_spec_run. Qed.

(* =================================================================================================
   THE RUNNER WITH ARGUMENT BINDING (appended).  RunnerBind.v is Runner.v with the one thing Runner.v
   abstracts: run_instruction hands the command `bind_command_arguments(variables, instruction)`
   (Expansion.bind_args against the variables at that moment); the on_error command still gets
   (message, line, source) as they are.  The abstract machine RunnerBindSpec.spec_step_b is
   RunnerSpec.spec_step rule by rule with [invokes] replaced by [invokes_b] (bound arguments).
   The statements hold for every binder [bnd]; [bind_vars] is the real one, the identity gives back
   the theorems above.
   ================================================================================================= *)
Require Import DS.Expansion DS.ExpansionSpec DS.RunnerBind DS.RunnerBindSpec DS.RunnerBindProof DS.RunnerBindScripted.
Require Import DS.Runner.

Section C03_bound.
Variable cstate : Type.
Variable exists_cmd : cstate -> str -> bool.
Variable cmd : str -> inv -> world cstate -> result * world cstate.
Variable ext : nat -> bool.

(* one iteration of run_instructions (with binding) is exactly one move of the abstract machine *)
Theorem C03_step_bound : forall bnd prog c x,
  step_b cstate exists_cmd cmd ext bnd prog (label_table prog) c = x <-> spec_step_b cstate exists_cmd cmd ext bnd prog c x.
Proof. exact (RunnerBindProof.step_iff cstate exists_cmd cmd ext). Qed.

(* C03_refines for the runner with real binding: every finished run is a run of the abstract
   machine in which every script instruction invokes its command with the arguments bound against
   the variables of that moment *)
Theorem C03_refines_bound : forall prog w fuel f t,
  run_bound cstate exists_cmd cmd ext fuel prog w = Done f t ->
  spec_program_b cstate exists_cmd cmd ext bind_vars prog w f t.
Proof. exact (run_b_refines cstate exists_cmd cmd ext bind_vars). Qed.

Theorem C03_complete_bound : forall prog w f t,
  spec_program_b cstate exists_cmd cmd ext bind_vars prog w f t ->
  exists fuel, run_bound cstate exists_cmd cmd ext fuel prog w = Done f t.
Proof. exact (run_b_complete cstate exists_cmd cmd ext bind_vars). Qed.

Theorem C03_spec_det_bound : forall prog w f1 t1 f2 t2,
  spec_program_b cstate exists_cmd cmd ext bind_vars prog w f1 t1 ->
  spec_program_b cstate exists_cmd cmd ext bind_vars prog w f2 t2 -> f1 = f2 /\ t1 = t2.
Proof. exact (spec_program_b_det cstate exists_cmd cmd ext bind_vars). Qed.

(* the generalisation is conservative: with the identity binder the model and the abstract machine
   are Runner.v and RunnerSpec.v *)
Theorem C03_bound_conservative :
  (forall fuel p w, run_b cstate exists_cmd cmd ext idb fuel p w = run cstate exists_cmd cmd ext fuel p w) /\
  (forall prog c x, spec_step_b cstate exists_cmd cmd ext idb prog c x <-> spec_step cstate exists_cmd cmd ext prog c x).
Proof. exact (conj (run_b_id cstate exists_cmd cmd ext) (spec_step_b_id cstate exists_cmd cmd ext)). Qed.

(* SIMULATION by Runner.v: run over the command function [bound_cmd] (binds the arguments of every
   invocation except the one shaped like the handler's: on_error, three arguments, no output
   variable, line 0), Runner.v agrees with the binding runner on success / failure with
   meta-information, final context, executed lines and invoked commands (name, output variable,
   line) — on everything but the LOGGED arguments (Runner.v logs the written ones) — for every
   program whose instruction 0 is not itself a bare `on_error a b c`.  This is how theorems proved
   about `run` for every command function (C10, C13, C14b) carry over to the binding runner. *)
Theorem C03_bound_sim : forall bnd prog w fuel,
  first_is_handler_call prog = false ->
  outcome_shape cstate (run_b cstate exists_cmd cmd ext bnd fuel prog w)
  = outcome_shape cstate (run cstate exists_cmd (bound_cmd cstate cmd bnd) ext fuel prog w).
Proof. exact (run_b_sim cstate exists_cmd cmd ext). Qed.

(* C03 + C02: for arguments written as well-formed templates outside C02's known-finding classes the
   invoked command receives the denotations (values inserted verbatim, \${x} literal, %{x} spread) *)
Theorem C03_bound_receives : forall w i s c line (args : list warg),
  i_type i = IScript s -> s_cmd s = Some c -> exists_cmd (cst w) c = true ->
  s_args s = map render_arg args -> forallb wf_arg args = true ->
  existsb (known_arg (env_of (vars w))) args = false ->
  ri_calls (run_instruction_b cstate exists_cmd cmd bind_vars w i line)
  = [Call c (Inv (denote_args (env_of (vars w)) args) (s_out s) line)].
Proof. exact (bound_receives cstate exists_cmd cmd). Qed.
End C03_bound.

(* non-vacuity: `x = c0` (c0 answers "v w"); `c1 a${x}b \${x} %{x} ${nope}` — c1 receives
   ["av wb"; "${x}"; "v"; "w"; ""], fails with the message "${x}", and on_error receives that message
   unexpanded together with the source line 2 *)
Theorem C03_bound_nonvacuous :
  xb_calls (sb_run 5 None xb_prog [] xb_cmds) =
  [ Call xb_c0 (Inv [] (Some xb_x) 0);
    Call xb_c1 (Inv [[97; 118; 32; 119; 98]%N; xb_var; xb_v; xb_w; []] None 1);
    Call on_error_name (Inv [xb_var; [50]%N; []] None 0) ].
Proof. vm_compute. reflexivity. Qed.
