(* C08 — Parsing is total, one instruction per line, malformed lines rejected in place.
   Property theorems only; every proof is [exact <lemma>].
   Model: DS.Parser (suffix-style model of duckscript/src/parser.rs); [parse_text] is parse_text
   with an include handler that cannot serve files (the domain excludes include directives with
   arguments); [line_error s] (ParserSpec) is the verdict of one physical line. *)
Require Import DS.Base DS.Parser DS.ParserSpec DS.ParserFacts.

(* termination: the argument loop never runs out of its fuel, for any flags and any characters *)
Theorem C08_args_terminate : forall fl l, parse_arguments_with fl l <> PErr EFuel.
Proof. exact parse_arguments_with_nofuel. Qed.

(* every text gets a verdict: a list of instructions or an error that is not "out of fuel" *)
Theorem C08_total_fn : forall t,
  (exists is, parse_text t = TOk is) \/ (exists e ln src, parse_text t = TErr e ln src /\ e <> EFuel).
Proof. exact parse_text_total. Qed.

(* an accepted text has exactly one instruction per line, in order; the k-th (0-based) carries
   line number k+1, no source, and is what line k parses to; blank and '#' lines are Empty; and an
   accepted text (under the non-serving include handler) has no include directive with arguments *)
Theorem C08_count : forall t is,
  parse_text t = TOk is ->
  length is = length (lines t) /\
  Forall2 (instr_of_line None) (number_from 1 (lines t)) is /\
  (forall k s, nth_error (lines t) k = Some s ->
     exists i, nth_error is k = Some i /\ i_line i = N.of_nat k + 1 /\ i_source i = None /\
               parse_line s = POk (i_type i) /\
               (blank_or_comment s = true -> i_type i = IEmpty)) /\
  no_include_args t = true.
Proof. exact parse_text_count. Qed.

(* a rejected text (without include directives with arguments) is rejected at its first
   unacceptable line, with that line's error kind and 1-based number *)
Theorem C08_first_error : forall t e ln src,
  no_include_args t = true -> parse_text t = TErr e ln src ->
  src = None /\ e <> EReadFile /\ e <> EFuel /\
  exists good bad rest, lines t = good ++ bad :: rest /\
    Forall (fun s => line_error s = None) good /\ line_error bad = Some e /\
    ln = N.of_nat (length good) + 1.
Proof. exact parse_text_first_error. Qed.

(* conversely, an unacceptable line after acceptable ones makes the whole parse fail there,
   whatever follows *)
Theorem C08_planted : forall t good bad rest e,
  lines t = good ++ bad :: rest ->
  Forall (fun s => line_error s = None) good -> line_error bad = Some e -> e <> EReadFile ->
  parse_text t = TErr e (N.of_nat (length good) + 1) None.
Proof. exact parse_text_planted. Qed.

(* the only errors a line can raise by itself *)
Theorem C08_line_errors : forall s e, parse_line s = PErr e -> line_err e = true.
Proof. exact parse_line_err. Qed.
