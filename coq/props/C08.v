(* C08 — Parsing is total, one instruction per line, malformed lines rejected in place.
   Property theorems only; every proof is [exact <lemma>].
   Model: DS.Parser (suffix-style model of duckscript/src/parser.rs); [parse_text] is parse_text
   with an include handler that cannot serve files (the domain excludes include directives with
   arguments); [line_error s] (ParserSpec) is the verdict of one physical line. *)
Require Import DS.Base DS.Parser DS.ParserSpec DS.ParserFacts DS.Render DS.ParserClasses DS.ParserClassesProof.
Require DS.ParserIx DS.ParserIxProof.

(* termination: the argument loop never runs out of its fuel, for any flags and any characters *)
Theorem C08_args_terminate : forall fl l, parse_arguments_with fl l <> PErr EFuel.
Proof. exact parse_arguments_with_nofuel. Qed.

(* every text gets a verdict: a list of instructions or an error that is not "out of fuel" *)
Theorem C08_total_fn : forall t,
  (exists is, parse_text t = TOk is) \/ (exists e ln src, parse_text t = TErr e ln src /\ e <> EFuel).
Proof. exact parse_text_total. Qed.

(* an accepted text has exactly one instruction per line, in order; the k-th (0-based) carries
   line number k+1, no source, and is what line k parses to; blank and '#' lines are Empty; and an
   accepted text (under the non-serving include handler) has no include directive with arguments *)
Theorem C08_count : forall t is,
  parse_text t = TOk is ->
  length is = length (lines t) /\
  Forall2 (instr_of_line None) (number_from 1 (lines t)) is /\
  (forall k s, nth_error (lines t) k = Some s ->
     exists i, nth_error is k = Some i /\ i_line i = N.of_nat k + 1 /\ i_source i = None /\
               parse_line s = POk (i_type i) /\
               (blank_or_comment s = true -> i_type i = IEmpty)) /\
  no_include_args t = true.
Proof. exact parse_text_count. Qed.

(* a rejected text (without include directives with arguments) is rejected at its first
   unacceptable line, with that line's error kind and 1-based number *)
Theorem C08_first_error : forall t e ln src,
  no_include_args t = true -> parse_text t = TErr e ln src ->
  src = None /\ e <> EReadFile /\ e <> EFuel /\
  exists good bad rest, lines t = good ++ bad :: rest /\
    Forall (fun s => line_error s = None) good /\ line_error bad = Some e /\
    ln = N.of_nat (length good) + 1.
Proof. exact parse_text_first_error. Qed.

(* conversely, an unacceptable line after acceptable ones makes the whole parse fail there,
   whatever follows *)
Theorem C08_planted : forall t good bad rest e,
  lines t = good ++ bad :: rest ->
  Forall (fun s => line_error s = None) good -> line_error bad = Some e -> e <> EReadFile ->
  parse_text t = TErr e (N.of_nat (length good) + 1) None.
Proof. exact parse_text_planted. Qed.

(* the only errors a line can raise by itself *)
Theorem C08_line_errors : forall s e, parse_line s = PErr e -> line_err e = true.
Proof. exact parse_line_err. Qed.

(* ---- malformed lines are rejected in place ---------------------------------------------------------
   [bad_line] (DS.ParserClasses) describes a line that is well formed up to exactly one malformation;
   [render_bad] writes it, [valid_bad] is the boolean side condition, [class_of] one of the seven
   classes of the property: unterminated quote, undocumented escape, dangling backslash, name
   beginning with a double quote, name containing a backslash, '!' alone, '!' + unknown word. *)

(* the verdict of a malformed line is the error kind of its class *)
Theorem C08_class_line : forall b,
  valid_bad b = true -> line_error (render_bad b) = Some (class_kind (class_of b)).
Proof. intros b H. rewrite <- bad_kind_class. exact (bad_line_error b H). Qed.

(* good1 ++ [bad] ++ rest fails with the kind of bad's class at line length good1 + 1 *)
Theorem C08_errors : forall t good b rest,
  lines t = good ++ render_bad b :: rest ->
  Forall (fun s => line_error s = None) good -> valid_bad b = true ->
  parse_text t = TErr (class_kind (class_of b)) (N.of_nat (length good) + 1) None.
Proof. exact errors_planted. Qed.

(* the same for the text obtained by terminating every line with LF *)
Theorem C08_errors_text : forall good b rest,
  forallb plain_line (good ++ render_bad b :: rest) = true ->
  Forall (fun s => line_error s = None) good -> valid_bad b = true ->
  parse_text (join_lf (good ++ render_bad b :: rest))
  = TErr (class_kind (class_of b)) (N.of_nat (length good) + 1) None.
Proof. exact errors_planted_text. Qed.

(* non-vacuity: every class has a valid member *)
Theorem C08_errors_nonvacuous :
  forallb valid_bad ex_bad = true /\
  map class_of ex_bad = [KUnterminatedQuote; KUndocumentedEscape; KDanglingBackslash; KNameBeginsWithQuote;
                         KNameContainsBackslash; KBangAlone; KBangUnknown].
Proof. exact (conj ex_bad_valid ex_bad_classes). Qed.

(* ---- index arithmetic --------------------------------------------------------------------------------
   DS.ParserIx is the same parser with what the Rust code has: the line as a vector, usize indices
   moved by hand, loops with an iteration count fixed at entry, and an explicit Panic outcome for
   an out-of-bounds [line_text[index]], for [index -= 1] at 0 and for [chars[0]] on an empty vector. *)

(* the index model answers exactly what the suffix model answers, on every text *)
Theorem C08_refine : forall t,
  DS.ParserIx.parse_text t = DS.ParserIx.inj_tres (parse_text t).
Proof. exact DS.ParserIxProof.parse_text_refine. Qed.

(* hence no character sequence makes the index arithmetic panic *)
Theorem C08_total : forall t, DS.ParserIx.parse_text t <> DS.ParserIx.ITPanic.
Proof. exact DS.ParserIxProof.parse_text_no_panic. Qed.

(* the token scanner alone, from any start index inside the line, for any flags *)
Theorem C08_refine_token : forall fl line start, (start <= length line)%nat ->
  DS.ParserIx.parse_next_value fl line start
  = DS.ParserIxProof.inj_pnv line (parse_next_value fl (skipn start line)).
Proof. exact DS.ParserIxProof.pnv_refine. Qed.
