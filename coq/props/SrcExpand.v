(* SrcExpand — the expansion scanner the binding theorems are about IS the current source.
   gen_expand_by_wrapper (with gen_should_break_key, gen_push_prefix, gen_x_body) is regenerated on every run
   from duckscript/src/expansion.rs by the translator lib/rs2v.py; Expansion.expand_by_wrapper is the
   hand-written model C02 / C09 reason about.  Property theorems only. *)
Require Import DS.Base DS.Parser DS.Expansion DS.ExpansionGenTie.
Require Import DSG.GenExpandFn.

Theorem Src_expand_step : gen_expand_understood = true ->
  forall variables s c, gen_x_body variables s c = xstep variables s c.
Proof. exact gen_x_body_eq. Qed.
Print Assumptions Src_expand_step.

Theorem Src_expand_by_wrapper : gen_expand_understood = true ->
  forall value variables, gen_expand_by_wrapper value variables = expand_by_wrapper value variables.
Proof. exact gen_expand_by_wrapper_eq. Qed.
Print Assumptions Src_expand_by_wrapper.
