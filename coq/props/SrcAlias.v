(* SrcAlias — the wrapper around script-implemented commands the C19 theorems are about (and the clear_scope
   command of C11) IS the current source.
   gen_scope_clear / gen_alias_run are regenerated on every run from duckscript_sdk/src/types/scope.rs (fn clear) and
   duckscript_sdk/src/types/command.rs (impl Command for AliasCommand: fn run) by the translator lib/rs2v.py
   (lib/gen/alias_gen.py); AliasCmd.keep / AliasCmd.alias_run are the hand-written model functions C19 reasons
   about, Scope.m_cmd (CClearScope n) the one of C11.  The translation is over the model's types (variables = gmap,
   handle table = its key set); put_handle's random name, eval_instructions and the scope name are the model's
   Section variables fresh / body / P; set_line_context_name is a no-op on the modelled state (checked on scope.rs
   by the generator); message texts are erased.  Property theorems only. *)
Require Import DS.Base DS.ScriptConf DS.AliasCmd DS.AliasGenTie.
From stdpp Require Import gmap.
Require Import DSG.GenAliasFn.
Require DS.Scope.

(* scope::clear: the translation of the source keeps exactly what AliasCmd.keep keeps *)
Theorem Src_alias_clear : gen_scope_clear_understood = true ->
  forall P v, gen_scope_clear P v = keep P v.
Proof. exact gen_scope_clear_eq. Qed.
Print Assumptions Src_alias_clear.

(* C11: the clear_scope command of the Scope.v model leaves exactly what the translated `clear` leaves *)
Theorem Src_scope_clear_c11 : gen_scope_clear_understood = true ->
  forall n s, Scope.m_cmd s (Scope.CClearScope n) =
              (Scope.ONone, Scope.MS (gen_scope_clear n (Scope.vars s)) (Scope.stack s)).
Proof. exact gen_scope_clear_c11. Qed.
Print Assumptions Src_scope_clear_c11.

(* AliasCommand::run: the hand model equals the translation of the source — result, variables and handle set, for
   every handle-name generator, every body (eval_instructions), scope name, minimum argument count, arguments,
   variables and handle set *)
Theorem Src_alias_run : gen_scope_clear_understood = true -> gen_alias_run_understood = true ->
  forall fresh body P min_args args v h,
    gen_alias_run fresh body P min_args args v h = alias_run fresh body P min_args args v h.
Proof. exact gen_alias_run_eq. Qed.
Print Assumptions Src_alias_run.

(* the C19 wrapper theorems, about the translation of the current source itself *)
Theorem Src_alias_no_working_variable : gen_scope_clear_understood = true -> gen_alias_run_understood = true ->
  forall fresh body P min_args args v h r v' h' k,
  gen_alias_run fresh body P min_args args v h = (r, v', h') -> (min_args <= length args)%nat ->
  hasp P k = true -> v' !! k = None.
Proof. exact gen_run_no_working_variable. Qed.
Print Assumptions Src_alias_no_working_variable.

Theorem Src_alias_argument_array_released : gen_scope_clear_understood = true -> gen_alias_run_understood = true ->
  forall fresh body P min_args a0 args0 v h r v' h',
  gen_alias_run fresh body P min_args (a0 :: args0) v h = (r, v', h') ->
  (min_args <= length (a0 :: args0))%nat -> fresh h ∉ h'.
Proof. exact gen_run_argument_array_released. Qed.
Print Assumptions Src_alias_argument_array_released.

Theorem Src_alias_caller_variables : gen_scope_clear_understood = true -> gen_alias_run_understood = true ->
  forall fresh body P min_args D args v h r v' h',
  confined_mod body P D -> gen_alias_run fresh body P min_args args v h = (r, v', h') ->
  forall k, hasp P k = false -> v' !! k = v !! k \/ (D k = true /\ v' !! k = None).
Proof. exact gen_run_caller_variables. Qed.
Print Assumptions Src_alias_caller_variables.

Theorem Src_alias_leak_check_never_fires : gen_scope_clear_understood = true -> gen_alias_run_understood = true ->
  forall fresh body P min_args D args v h,
  confined_mod body P D -> (min_args <= length args)%nat ->
  exists fr fo v2 h2 v1 h1, body v1 h1 = (fr, fo, v2, h2) /\
    (gen_alias_run fresh body P min_args args v h).1.1 = match fr with Some r => r | None => WContinue fo end.
Proof. exact gen_run_leak_check_never_fires. Qed.
Print Assumptions Src_alias_leak_check_never_fires.
