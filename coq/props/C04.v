(* C04 — if / elseif / else / while / for-in are properly nested structured blocks.
   Property theorems only; every proof is [exact <lemma>]. *)
Require Import DS.Base DS.FlowTables DS.FlowTablesWf.

(* the keyword tables regenerated from the Rust sources are well-formed *)
Theorem C04_tables : tables_wf = true.
Proof. exact gen_tables_wf. Qed.
