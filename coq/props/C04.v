(* C04 — if / elseif / else / while / for-in are properly nested structured blocks.
   Property theorems only; every proof is [exact <lemma>].

   Model: DS.Flow (flat machine = the Rust flow-control commands driven by the runner's line
   counter), DS.FlowScan (instruction_query::find_commands), tables DSG.GenFlowNames regenerated
   from the Rust sources.  Spec: DS.FlowTree (structured programs, [compile], [tree_run]). *)
Require Import DS.Base DS.FlowTables DS.FlowTablesWf DS.FlowScan DS.Flow DS.FlowTree DS.FlowScanProof
  DS.FlowLemmas DS.FlowFrame DS.FlowSim DS.FlowThms.
Open Scope nat_scope.

(* the keyword tables regenerated from the Rust sources are well-formed: every spelling of a
   keyword is in the list the scanners expect it in, the lists are disjoint where the scanner needs
   it, every spelling runs the command it is a spelling of.  (False with defect F5.) *)
Theorem C04_tables : tables_wf = true.
Proof. exact gen_tables_wf. Qed.

(* scanner lemma: from the line after an opener of kind k, over any well-nested body and else
   chain in any spelling, find_commands returns exactly the positions of the construct's own
   elseif/else lines and of its own end line *)
Theorem C04_find_own_end : tables_wf = true ->
  forall k pre b els c rest, wfb b -> wfe els -> In c (closers k) ->
  find_commands (table_of k) (pre ++ cmds (cb b) ++ cmds (ce els) ++ Some c :: rest) (length pre)
  = SOk (mids k els (length pre + length (cb b))) (length pre + length (cb b) + length (ce els)).
Proof. exact find_own_end_gen. Qed.

(* the flat machine is a function of its configuration *)
Theorem C04_steps_det : forall P n c c1 c2,
  steps n P c = Some c1 -> steps n P c = Some c2 -> c1 = c2.
Proof. exact steps_det. Qed.

(* simulation (full statement of DESIGN §7 C04): whatever the tree-walking interpreter computes for
   a well-formed block, the flat machine computes on the compiled code, wherever that code is
   placed in a program and whatever flow state it starts from (provided its caches are right and
   no for-in entry of the stack lies inside the code), ending on the line after the block in the
   same world (variables, emit trace, arrays) with caches that equal recomputation, the if/while
   stacks extended only by junk entries of the block's own lines, the for-in stack as found *)
Theorem C04_sim : tables_wf = true ->
  forall b w w' n pre post, wfb b -> tree_run n b w = TOk w' ->
  let P := pre ++ compile b ++ post in
  let p := length pre in let q := length pre + length (compile b) in
  forall f, Inv P f -> for_out p q f ->
  exists m f', steps m P (p, (w, f)) = Some (q, (w', f')) /\ Inv P f' /\ frame p q f f'.
Proof. exact flow_sim. Qed.

(* whole programs: the compiled program, run by the fuelled runner from the empty flow state,
   runs past its last line (never stuck, no Error / Crash / Panic outcome) in the world of the
   tree interpreter; the cached block tables equal recomputation; no for-in entry is left *)
Theorem C04_program : tables_wf = true ->
  forall b w w' n, wfb b -> tree_run n b w = TOk w' ->
  exists fuel f', (forall k, fuel <= k -> run_program k (compile b) w = Done (w', f')) /\
                  Inv (compile b) f' /\ f_forstk f' = [].
Proof. exact flow_program. Qed.

Theorem C04_program_unique : tables_wf = true ->
  forall b w w' n, wfb b -> tree_run n b w = TOk w' ->
  forall k s, run_program k (compile b) w = Done s -> fst s = w'.
Proof. exact flow_program_unique. Qed.

(* the specification's for-in is "once per element, in order, loop variable bound to the element"
   whenever the body leaves the array and its handle variable alone *)
Theorem C04_for_elements : forall x hv b l,
  (forall k v w1 w2, arr_is hv l w1 -> tb k b (vset x v w1) = TOk w2 -> arr_is hv l w2) ->
  forall n w w', arr_is hv l w -> tfor n x hv b 0 w = TOk w' -> iterates x b l w w'.
Proof. exact tfor_elements0. Qed.

(* non-vacuity: a program using every construct with full names and aliases is in the domain,
   the interpreter finishes with four emits and the flat machine ends in the same world *)
Theorem C04_nonvacuous :
  wfb_b ex_block = true /\
  exists w', tree_run 50 ex_block ex_world = TOk w' /\ length (w_trace w') = 4 /\
             exists f', run_program 100 (compile ex_block) ex_world = Done (w', f').
Proof. exact ex_nonvacuous. Qed.
