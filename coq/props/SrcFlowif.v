(* SrcFlowif — the if / elseif / else / end_if step functions the C04 / C05 theorems are about ARE the current source.
   gen_get_line_key, gen_end_set_command, gen_create_if_meta_info_for_line, gen_get_or_create_if_meta_info_for_line,
   gen_pop_call_info_for_line (+ _body), gen_store_call_info, gen_if_run, gen_elseif_run, gen_else_run, gen_endif_run are
   regenerated on every run from duckscript_sdk/src/sdk/std/flowcontrol/ifelse/mod.rs (+ fn get_line_key of
   flowcontrol/mod.rs, fn set_command of end/mod.rs) by the translator lib/rs2v.py (classes PTs / FnTs, client
   lib/gen/flowif_gen.py), one flag per function.  The hand model: Flow.v (create_if_meta, if_meta_info, if_pop, if_push,
   step_if, step_elseif, step_else, the end-if and wrong-shape arms of step) — the machine of C04_sim / C04_program and,
   through FlowFn.fstep, of C05_sim — and FlowFnC.v (cstep_if, cstep_elseif) — the machine of C05_sim_cond.
   Proofs: theories/FlowifGenTie.v.

   The translation works on the typed view FlowifGenLib.gis of the runtime state and carries what the Rust carries and the
   hand model omits (Flow.v header): the line_context_name field of every CallInfo and the `<line_context_name>::<line>`
   string keys of the meta-info cache and of the end table.  The model assumes the line context name is one constant;
   accordingly every theorem is stated on the image of the embedding [emb lcn] / [embC lcn] of model states (all CallInfo
   entries carry lcn, the current name is lcn, keys are `lcn::line`), for EVERY lcn.  The embedding is injective
   (Src_flowif_emb_inj), so each theorem determines the model function from the translation.
   What the generator configuration supplies (typed view, records, callees find_commands / eval_condition /
   get_line_context_name / pckg::concat, Result -> option, error-text -> code table, fuel): lib/gen/flowif_gen.py.
   Property theorems only. *)
Require Import DS.Base DS.Cond DS.FlowTables DS.FlowScan DS.Flow DS.FlowFn DS.FlowFnC DS.FlowifGenLib DS.FlowifGenTie.
Require Import DSG.GenFlowNames DSG.GenFlowifFn.
Open Scope nat_scope.

Theorem Src_flowif_emb_inj : forall lcn,
  (forall s s', emb lcn s = emb lcn s' -> s = s') /\ (forall s s', embC lcn s = embC lcn s' -> s = s').
Proof. exact (fun lcn => conj (emb_inj lcn) (embC_inj lcn)). Qed.
Print Assumptions Src_flowif_emb_inj.

(* flowcontrol/mod.rs::get_line_key: the key of line `line` is `lcn::line` *)
Theorem Src_flowif_line_key : gen_get_line_key_understood = true ->
  forall (X : Type) (x : X) lcn line f, gen_get_line_key line (emb_gen x lcn f) = line_key lcn line.
Proof. exact gen_get_line_key_eq. Qed.
Print Assumptions Src_flowif_line_key.

(* end/mod.rs::set_command = Flow.end_set *)
Theorem Src_flowif_end_set : gen_end_set_command_understood = true ->
  forall (X : Type) (x : X) lcn line name f,
    gen_end_set_command line name (emb_gen x lcn f) = emb_gen x lcn (end_set line name f).
Proof. exact gen_end_set_command_eq. Qed.
Print Assumptions Src_flowif_end_set.

(* create_if_meta_info_for_line = Flow.create_if_meta: for the package the commands are registered under, the five name
   lists the source builds ARE the model's table gen_if_tables, start is line + 1, the positions become the meta info *)
Theorem Src_flowif_create_if_meta : gen_create_if_meta_info_for_line_understood = true ->
  forall P line, gen_create_if_meta_info_for_line line (cmds P) gen_flow_package = create_if_meta P line.
Proof. exact gen_create_if_meta_info_for_line_eq. Qed.
Print Assumptions Src_flowif_create_if_meta.

(* get_or_create_if_meta_info_for_line = Flow.if_meta_info (cache lookup, creation, caching, end::set_command) *)
Theorem Src_flowif_if_meta_info : gen_get_or_create_if_meta_info_for_line_understood = true ->
  forall (X : Type) (x : X) lcn P line f,
    gen_get_or_create_if_meta_info_for_line line (cmds P) gen_flow_package (emb_gen x lcn f)
    = (fst (if_meta_info P line f), emb_gen x lcn (snd (if_meta_info P line f))).
Proof. exact gen_get_or_create_if_meta_info_for_line_eq. Qed.
Print Assumptions Src_flowif_if_meta_info.

(* store_call_info = Flow.if_push *)
Theorem Src_flowif_if_push : gen_store_call_info_understood = true ->
  forall (X : Type) (x : X) lcn e f,
    gen_store_call_info (emb_call lcn e) (emb_gen x lcn f) = emb_gen x lcn (if_push e f).
Proof. exact gen_store_call_info_eq. Qed.
Print Assumptions Src_flowif_if_push.

(* pop_call_info_for_line = Flow.if_pop: the loop (fuel = height of the stack + 1) never runs out of fuel, drops the
   entries that do not match and returns the first that does *)
Theorem Src_flowif_if_pop : gen_pop_call_info_for_line_understood = true ->
  forall (X : Type) (x : X) lcn line f,
    gen_pop_call_info_for_line line (emb_gen x lcn f)
    = Some (option_map (emb_call lcn) (fst (if_pop line (f_ifstk f))),
            emb_gen x lcn (set_ifstk (snd (if_pop line (f_ifstk f))) f)).
Proof. exact gen_pop_call_info_for_line_eq. Qed.
Print Assumptions Src_flowif_if_pop.

(* IfCommand::run = Flow.step_if (condition evaluated by Flow.eval_cond) *)
Theorem Src_flowif_step_if : gen_if_run_understood = true ->
  forall lcn P line c a args w f,
    gen_if_run (evc_base c) gen_flow_package (a :: args) line (cmds P) (emb lcn (w, f))
    = (fst (step_if P line c (w, f)), emb lcn (snd (step_if P line c (w, f)))).
Proof. exact gen_if_run_eq. Qed.
Print Assumptions Src_flowif_step_if.

Theorem Src_flowif_step_if_noargs : gen_if_run_understood = true ->
  forall lcn ev pkg P line c s, classify c = KIf ->
    gen_if_run ev pkg [] line (cmds P) (emb lcn s)
    = (fst (step P line (mkI (Some c) ANone) s), emb lcn (snd (step P line (mkI (Some c) ANone) s))).
Proof. exact gen_if_run_noargs_step. Qed.
Print Assumptions Src_flowif_step_if_noargs.

(* ElseIfCommand::run = Flow.step_elseif (never out of fuel) *)
Theorem Src_flowif_step_elseif : gen_elseif_run_understood = true ->
  forall lcn line c a args w f,
    gen_elseif_run (evc_base c) (a :: args) line (emb lcn (w, f))
    = Some (fst (step_elseif line c (w, f)), emb lcn (snd (step_elseif line c (w, f)))).
Proof. exact gen_elseif_run_eq. Qed.
Print Assumptions Src_flowif_step_elseif.

Theorem Src_flowif_step_elseif_noargs : gen_elseif_run_understood = true ->
  forall lcn ev P line c s, classify c = KElseIf ->
    gen_elseif_run ev [] line (emb lcn s)
    = Some (fst (step P line (mkI (Some c) ANone) s), emb lcn (snd (step P line (mkI (Some c) ANone) s))).
Proof. exact gen_elseif_run_noargs_step. Qed.
Print Assumptions Src_flowif_step_elseif_noargs.

(* ElseCommand::run = Flow.step_else *)
Theorem Src_flowif_step_else : gen_else_run_understood = true ->
  forall lcn line w f,
    gen_else_run line (emb lcn (w, f))
    = Some (fst (step_else line (w, f)), emb lcn (snd (step_else line (w, f)))).
Proof. exact gen_else_run_eq. Qed.
Print Assumptions Src_flowif_step_else.

(* EndIfCommand::run = the end-if arm of Flow.step *)
Theorem Src_flowif_endif : gen_endif_run_understood = true ->
  forall lcn P line c s, classify c = KEndIf ->
    gen_endif_run (emb lcn s)
    = (fst (step P line (mkI (Some c) ANone) s), emb lcn (snd (step P line (mkI (Some c) ANone) s))).
Proof. exact gen_endif_run_eq. Qed.
Print Assumptions Src_flowif_endif.

(* the machines of C05_sim_cond: IfCommand::run = FlowFnC.cstep_if, ElseIfCommand::run = FlowFnC.cstep_elseif, for every
   condition evaluator [evc] on translation states that does what the model's evaluator does on model states *)
Theorem Src_flowif_cstep_if : gen_if_run_understood = true ->
  forall lcn ev evc P line c a args s, evc_sim lcn ev c evc ->
    gen_if_run evc gen_flow_package (a :: args) line (fcmds P) (embC lcn s)
    = (fst (cstep_if ev P line c s), embC lcn (snd (cstep_if ev P line c s))).
Proof. exact gen_if_run_c_eq. Qed.
Print Assumptions Src_flowif_cstep_if.

Theorem Src_flowif_cstep_elseif : gen_elseif_run_understood = true ->
  forall lcn ev evc line c a args s, evc_sim lcn ev c evc ->
    gen_elseif_run evc (a :: args) line (embC lcn s)
    = Some (fst (cstep_elseif ev line c s), embC lcn (snd (cstep_elseif ev line c s))).
Proof. exact gen_elseif_run_c_eq. Qed.
Print Assumptions Src_flowif_cstep_elseif.
