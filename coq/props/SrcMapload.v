(* SrcMapload — the command model of map_load_properties (the reading half of C17's properties round trip) IS the current source.
   gen_mutate_map_sv / gen_cmd_map_load_properties are regenerated on every run from `mutate_map` of
   duckscript_sdk/src/utils/state.rs and `run` (impl Command for CommandImpl) of
   duckscript_sdk/src/sdk/std/collections/map_load_properties/mod.rs by the translator lib/rs2v.py (grammar PColl, executor
   FnColl + FnCodec; lib/gen/mapload_gen.py); CodecMapload.v holds the models.  Each tie theorem is stated under the flags of the
   functions it is about (stub and `false` when the translator does not understand one of them any more).

   In the translation every `context.arguments[i]` of the source is an explicit `(CPanic, s)` arm and a panicking closure an
   MPanic arm; the second half of Src_mapload_map_load_properties says no argument vector and no state reaches one.

   Modelling assumptions of the translation (lib/gen/mapload_gen.py, and codeccmds_gen.py for the shared part): the CONFIGURED
   CALLEE java_properties::read(text.as_bytes()) is CodecProps.pp_read (pp_decode_text text), its HashMap<String, String> the
   list of pairs in iteration order (tied to the crate by C17's correspondence run); the handle table and the map of a SubState
   are association lists (HashMap::remove = the value found + ht_remove, HashMap::insert = ht_insert); error message TEXTS are
   erased to error kinds by the table of the generator.  Property theorems only. *)
Require Import DS.Base DS.Utf8 DS.Strings DS.Codec DS.CodecProof DS.CodecProps DS.CodecPropsProof DS.Rs2vCodecLib DS.CodecCmds
  DS.CodecCmdsProof DS.CodecMapload DS.CodecMaploadProof DS.MaploadGenTie.
Require Import DSG.GenMaploadFn.

(* utils/state.rs mutate_map over sval: remove, kind test (one arm per arm of StateValue), handler on the map of a SubState,
   insert of the outcome under the same key; every other kind is put back with "Invalid handle provided." *)
Theorem Src_mapload_mutate_map : gen_mutate_map_sv_understood = true ->
  forall key st handler, gen_mutate_map_sv key st handler = mutate_map_sv key st handler.
Proof. exact gen_mutate_map_sv_eq. Qed.
Print Assumptions Src_mapload_mutate_map.

(* map_load_properties::run: the argument test, the flag parsing (`--prefix` only with at least FOUR arguments), which
   argument is prefix / handle / text, the reader BEFORE the handle lookup, the insert loop of the closure (prefixing,
   StateValue::String, into the map given), the answers; never a panic, never out of fuel *)
Theorem Src_mapload_map_load_properties : gen_mutate_map_sv_understood = true -> gen_cmd_map_load_properties_understood = true ->
  forall rnd args s, gen_cmd_map_load_properties rnd args s = cmd_map_load_properties_run args s /\
                     cdefined (fst (gen_cmd_map_load_properties rnd args s)).
Proof. exact (fun U1 U rnd args s => conj (gen_cmd_map_load_properties_eq U1 U rnd args s) (gen_cmd_map_load_properties_defined U1 U rnd args s)). Qed.
Print Assumptions Src_mapload_map_load_properties.

(* ---- hand-model theorems (no flag) ---------------------------------------------------------------------------------- *)
(* on a map of strings (in any iteration order) that command model IS the function CodecProps.cmd_map_load_properties the
   theorems C17_properties / C17_properties_prefix are about: "true" and the new map behind the handle, or the reader's error
   with the state untouched *)
Theorem Src_mapload_link : forall p key old text rest s,
  ht_get key (handles s) = Some (SSub (strmap old)) ->
  cmd_map_load_properties_run (s_prefix_flag :: p :: key :: text :: rest) s = load_result key s (cmd_map_load_properties p old text) /\
  cmd_map_load_properties_run [key; text] s = load_result key s (cmd_map_load_properties [] old text).
Proof. exact cmds_map_load_properties_link. Qed.
Print Assumptions Src_mapload_link.

(* C17_properties THROUGH the two command models, on the exact domain [representable]: map_to_properties of the handle of a map
   of strings answers a text; map_load_properties of that text into an empty map answers "true", leaves exactly the same pairs
   behind that handle and every other handle as it was *)
Theorem Src_mapload_properties_roundtrip : forall key key2 m s,
  ht_get key (handles s) = Some (SSub (strmap m)) -> ht_get key2 (handles s) = Some (SSub []) ->
  Forall (fun kv => representable kv = true) m -> NoDup (map fst m) ->
  exists text s1, cmd_map_to_properties_run [key] s = (CVal text, s) /\
                  cmd_map_load_properties_run [key2; text] s = (CVal s_true, s1) /\
                  ht_get key2 (handles s1) = Some (SSub (strmap m)) /\
                  forall k, k <> key2 -> ht_get k (handles s1) = ht_get k (handles s).
Proof. exact cmds_properties_roundtrip. Qed.
Print Assumptions Src_mapload_properties_roundtrip.

(* C17_properties_prefix through the two command models: written with --prefix p, read with --prefix q into an empty map, the
   pairs come back under the keys q.p.k (domain: the PREFIXED written pairs are representable) *)
Theorem Src_mapload_properties_roundtrip_prefix : forall p q key key2 m s,
  ht_get key (handles s) = Some (SSub (strmap m)) -> ht_get key2 (handles s) = Some (SSub []) ->
  Forall (fun kv => representable kv = true) (pp_prefix_map p m) -> NoDup (map fst m) ->
  exists text s1, cmd_map_to_properties_run [s_prefix_flag; p; key] s = (CVal text, s) /\
                  cmd_map_load_properties_run [s_prefix_flag; q; key2; text] s = (CVal s_true, s1) /\
                  ht_get key2 (handles s1) = Some (SSub (strmap (pp_prefix_map q (pp_prefix_map p m)))) /\
                  forall k, k <> key2 -> ht_get k (handles s1) = ht_get k (handles s).
Proof. exact cmds_properties_roundtrip_prefix. Qed.
Print Assumptions Src_mapload_properties_roundtrip_prefix.

(* an error answer other than "Invalid handle provided." (a text the reader rejects, a handle that is not there, too few
   arguments) leaves the handle table exactly as it was *)
Theorem Src_mapload_rejected : forall args s k l,
  fst (cmd_map_load_properties_run args s) = CErr k l -> (k = ce_kind -> False) -> handles (snd (cmd_map_load_properties_run args s)) = handles s.
Proof. exact cmd_map_load_properties_run_rejected. Qed.
Print Assumptions Src_mapload_rejected.
