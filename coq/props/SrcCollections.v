(* SrcCollections — the collection model the C12 theorems are about IS the current source.
   The gen_* functions are regenerated on every run from duckscript_sdk/src/utils/state.rs (mutate_list / mutate_map /
   mutate_set; get_optional_as_string / get_as_string inlined where a command calls them) and from the `run` functions (impl
   Command for CommandImpl) of duckscript_sdk/src/sdk/std/collections/{array, range, array_push, array_pop, array_get,
   array_set, array_remove, array_clear, array_length, map, map_put, map_get, map_remove, map_size, map_keys, map_clear, set,
   set_put, set_remove, set_contains, set_size, set_clear, set_to_array, is_array, is_map, is_set}/mod.rs and std/release/mod.rs by
   the translator
   lib/rs2v.py (class FnColl; lib/gen/collections_gen.py); Collections.v holds the hand-written model props/C12.v reasons
   about.  Each theorem is stated under the flag of its own function (stub and `false` when the translator does not
   understand that function any more).

   Src_collections_mutate_<kind>   the translation of the helper equals the model's helper for every key, handle table and
       closure, AND on a key holding a value of another kind — each of the twelve arms the source spells out — it answers
       "invalid handle" and leaves the handle table exactly as it was (C12: "leaves every collection unchanged").
   Src_collections_<cmd>           the translation of `run` equals the model's command for all argument vectors, states and
       oracles, AND equals `Done` of the SPECIFICATION's step: it never reaches one of its Panic arms (every
       `context.arguments[i]`, `&context.arguments[1..]`, `list[index]`, `list[index] = v`, `list.remove(index)` of the source
       is such an arm) nor Fuel.

   Modelling assumptions of the translation (lib/gen/collections_gen.py): Context.state["handles"] is the model's handle
   table; StateValue as a handle-table value is hval (the ten non-collection arms are HOther, told apart by
   Rs2vCollLib.other_arm), as a list item / map value it is elem (String / Number64Bit only); put_handle draws the key
   `rnd (draws s)`; HashMap / HashSet iteration order is the oracle `ord (draws s)`; Vec / HashMap / HashSet / str::parse /
   to_string are the list / gmap / gset / parse_usize / parse_i64 / dec_N / dec_Z / bool_str operations of Collections.v; error
   message TEXTS are erased to the model's ekind by the table of the C12 harness.  `release`: its `run` is translated, its
   callee remove_handle_recursive is NOT (the call is the model's release_recursive; C12_release is about that model, which
   stays tied to state.rs::remove_handle_recursive by the correspondence run only).
   Property theorems only. *)
From stdpp Require Import gmap list.
From Coq Require Import NArith ZArith.
Require Import DS.Collections DS.CollectionsSpec DS.Rs2vCollLib DS.CollectionsGenTie.
Require Import DSG.GenCollectionsFn.

Theorem Src_collections_mutate_list : gen_mutate_list_understood = true ->
  (forall key st handler, gen_mutate_list key st handler = mutate_list key st handler) /\
  (forall key st handler v, st !! key = Some v -> (forall l, v <> HList l) ->
     gen_mutate_list key st handler = Done (RErr EKind, st)).
Proof. exact (fun U => conj (gen_mutate_list_eq U) (gen_mutate_list_wrong_kind U)). Qed.
Print Assumptions Src_collections_mutate_list.

Theorem Src_collections_mutate_map : gen_mutate_map_understood = true ->
  (forall key st handler, gen_mutate_map key st handler = mutate_map key st handler) /\
  (forall key st handler v, st !! key = Some v -> (forall m, v <> HMap m) ->
     gen_mutate_map key st handler = Done (RErr EKind, st)).
Proof. exact (fun U => conj (gen_mutate_map_eq U) (gen_mutate_map_wrong_kind U)). Qed.
Print Assumptions Src_collections_mutate_map.

Theorem Src_collections_mutate_set : gen_mutate_set_understood = true ->
  (forall key st handler, gen_mutate_set key st handler = mutate_set key st handler) /\
  (forall key st handler v, st !! key = Some v -> (forall x, v <> HSet x) ->
     gen_mutate_set key st handler = Done (RErr EKind, st)).
Proof. exact (fun U => conj (gen_mutate_set_eq U) (gen_mutate_set_wrong_kind U)). Qed.
Print Assumptions Src_collections_mutate_set.

Theorem Src_collections_array : gen_cmd_array_understood = true ->
  forall rnd ord args s, gen_cmd_array rnd ord args s = cmd_array rnd args s /\
                         gen_cmd_array rnd ord args s = Done (step_s rnd ord CArray args s).
Proof. exact (fun U rnd ord args s => conj (gen_cmd_array_eq U rnd ord args s) (gen_cmd_array_done U rnd ord args s)). Qed.
Print Assumptions Src_collections_array.

Theorem Src_collections_range : gen_cmd_range_understood = true ->
  forall rnd ord args s, gen_cmd_range rnd ord args s = cmd_range rnd args s /\
                         gen_cmd_range rnd ord args s = Done (step_s rnd ord CRange args s).
Proof. exact (fun U rnd ord args s => conj (gen_cmd_range_eq U rnd ord args s) (gen_cmd_range_done U rnd ord args s)). Qed.
Print Assumptions Src_collections_range.

Theorem Src_collections_array_push : gen_cmd_array_push_understood = true ->
  forall rnd ord args s, gen_cmd_array_push rnd ord args s = cmd_array_push args s /\
                         gen_cmd_array_push rnd ord args s = Done (step_s rnd ord CArrayPush args s).
Proof. exact (fun U rnd ord args s => conj (gen_cmd_array_push_eq U rnd ord args s) (gen_cmd_array_push_done U rnd ord args s)). Qed.
Print Assumptions Src_collections_array_push.

Theorem Src_collections_array_pop : gen_cmd_array_pop_understood = true ->
  forall rnd ord args s, gen_cmd_array_pop rnd ord args s = cmd_array_pop args s /\
                         gen_cmd_array_pop rnd ord args s = Done (step_s rnd ord CArrayPop args s).
Proof. exact (fun U rnd ord args s => conj (gen_cmd_array_pop_eq U rnd ord args s) (gen_cmd_array_pop_done U rnd ord args s)). Qed.
Print Assumptions Src_collections_array_pop.

Theorem Src_collections_array_get : gen_cmd_array_get_understood = true ->
  forall rnd ord args s, gen_cmd_array_get rnd ord args s = cmd_array_get args s /\
                         gen_cmd_array_get rnd ord args s = Done (step_s rnd ord CArrayGet args s).
Proof. exact (fun U rnd ord args s => conj (gen_cmd_array_get_eq U rnd ord args s) (gen_cmd_array_get_done U rnd ord args s)). Qed.
Print Assumptions Src_collections_array_get.

Theorem Src_collections_array_set : gen_cmd_array_set_understood = true ->
  forall rnd ord args s, gen_cmd_array_set rnd ord args s = cmd_array_set args s /\
                         gen_cmd_array_set rnd ord args s = Done (step_s rnd ord CArraySet args s).
Proof. exact (fun U rnd ord args s => conj (gen_cmd_array_set_eq U rnd ord args s) (gen_cmd_array_set_done U rnd ord args s)). Qed.
Print Assumptions Src_collections_array_set.

Theorem Src_collections_array_remove : gen_cmd_array_remove_understood = true ->
  forall rnd ord args s, gen_cmd_array_remove rnd ord args s = cmd_array_remove args s /\
                         gen_cmd_array_remove rnd ord args s = Done (step_s rnd ord CArrayRemove args s).
Proof. exact (fun U rnd ord args s => conj (gen_cmd_array_remove_eq U rnd ord args s) (gen_cmd_array_remove_done U rnd ord args s)). Qed.
Print Assumptions Src_collections_array_remove.

Theorem Src_collections_array_clear : gen_cmd_array_clear_understood = true ->
  forall rnd ord args s, gen_cmd_array_clear rnd ord args s = cmd_array_clear args s /\
                         gen_cmd_array_clear rnd ord args s = Done (step_s rnd ord CArrayClear args s).
Proof. exact (fun U rnd ord args s => conj (gen_cmd_array_clear_eq U rnd ord args s) (gen_cmd_array_clear_done U rnd ord args s)). Qed.
Print Assumptions Src_collections_array_clear.

Theorem Src_collections_array_length : gen_cmd_array_length_understood = true ->
  forall rnd ord args s, gen_cmd_array_length rnd ord args s = cmd_array_length args s /\
                         gen_cmd_array_length rnd ord args s = Done (step_s rnd ord CArrayLength args s).
Proof. exact (fun U rnd ord args s => conj (gen_cmd_array_length_eq U rnd ord args s) (gen_cmd_array_length_done U rnd ord args s)). Qed.
Print Assumptions Src_collections_array_length.

Theorem Src_collections_map : gen_cmd_map_understood = true ->
  forall rnd ord args s, gen_cmd_map rnd ord args s = cmd_map rnd args s /\
                         gen_cmd_map rnd ord args s = Done (step_s rnd ord CMap args s).
Proof. exact (fun U rnd ord args s => conj (gen_cmd_map_eq U rnd ord args s) (gen_cmd_map_done U rnd ord args s)). Qed.
Print Assumptions Src_collections_map.

Theorem Src_collections_map_put : gen_cmd_map_put_understood = true ->
  forall rnd ord args s, gen_cmd_map_put rnd ord args s = cmd_map_put args s /\
                         gen_cmd_map_put rnd ord args s = Done (step_s rnd ord CMapPut args s).
Proof. exact (fun U rnd ord args s => conj (gen_cmd_map_put_eq U rnd ord args s) (gen_cmd_map_put_done U rnd ord args s)). Qed.
Print Assumptions Src_collections_map_put.

Theorem Src_collections_map_get : gen_cmd_map_get_understood = true ->
  forall rnd ord args s, gen_cmd_map_get rnd ord args s = cmd_map_get args s /\
                         gen_cmd_map_get rnd ord args s = Done (step_s rnd ord CMapGet args s).
Proof. exact (fun U rnd ord args s => conj (gen_cmd_map_get_eq U rnd ord args s) (gen_cmd_map_get_done U rnd ord args s)). Qed.
Print Assumptions Src_collections_map_get.

Theorem Src_collections_map_remove : gen_cmd_map_remove_understood = true ->
  forall rnd ord args s, gen_cmd_map_remove rnd ord args s = cmd_map_remove args s /\
                         gen_cmd_map_remove rnd ord args s = Done (step_s rnd ord CMapRemove args s).
Proof. exact (fun U rnd ord args s => conj (gen_cmd_map_remove_eq U rnd ord args s) (gen_cmd_map_remove_done U rnd ord args s)). Qed.
Print Assumptions Src_collections_map_remove.

Theorem Src_collections_map_size : gen_cmd_map_size_understood = true ->
  forall rnd ord args s, gen_cmd_map_size rnd ord args s = cmd_map_size args s /\
                         gen_cmd_map_size rnd ord args s = Done (step_s rnd ord CMapSize args s).
Proof. exact (fun U rnd ord args s => conj (gen_cmd_map_size_eq U rnd ord args s) (gen_cmd_map_size_done U rnd ord args s)). Qed.
Print Assumptions Src_collections_map_size.

Theorem Src_collections_map_keys : gen_cmd_map_keys_understood = true ->
  forall rnd ord args s, gen_cmd_map_keys rnd ord args s = cmd_map_keys rnd ord args s /\
                         gen_cmd_map_keys rnd ord args s = Done (step_s rnd ord CMapKeys args s).
Proof. exact (fun U rnd ord args s => conj (gen_cmd_map_keys_eq U rnd ord args s) (gen_cmd_map_keys_done U rnd ord args s)). Qed.
Print Assumptions Src_collections_map_keys.

Theorem Src_collections_map_clear : gen_cmd_map_clear_understood = true ->
  forall rnd ord args s, gen_cmd_map_clear rnd ord args s = cmd_map_clear args s /\
                         gen_cmd_map_clear rnd ord args s = Done (step_s rnd ord CMapClear args s).
Proof. exact (fun U rnd ord args s => conj (gen_cmd_map_clear_eq U rnd ord args s) (gen_cmd_map_clear_done U rnd ord args s)). Qed.
Print Assumptions Src_collections_map_clear.

Theorem Src_collections_set_new : gen_cmd_set_new_understood = true ->
  forall rnd ord args s, gen_cmd_set_new rnd ord args s = cmd_set_new rnd args s /\
                         gen_cmd_set_new rnd ord args s = Done (step_s rnd ord CSetNew args s).
Proof. exact (fun U rnd ord args s => conj (gen_cmd_set_new_eq U rnd ord args s) (gen_cmd_set_new_done U rnd ord args s)). Qed.
Print Assumptions Src_collections_set_new.

Theorem Src_collections_set_put : gen_cmd_set_put_understood = true ->
  forall rnd ord args s, gen_cmd_set_put rnd ord args s = cmd_set_put args s /\
                         gen_cmd_set_put rnd ord args s = Done (step_s rnd ord CSetPut args s).
Proof. exact (fun U rnd ord args s => conj (gen_cmd_set_put_eq U rnd ord args s) (gen_cmd_set_put_done U rnd ord args s)). Qed.
Print Assumptions Src_collections_set_put.

Theorem Src_collections_set_remove : gen_cmd_set_remove_understood = true ->
  forall rnd ord args s, gen_cmd_set_remove rnd ord args s = cmd_set_remove args s /\
                         gen_cmd_set_remove rnd ord args s = Done (step_s rnd ord CSetRemove args s).
Proof. exact (fun U rnd ord args s => conj (gen_cmd_set_remove_eq U rnd ord args s) (gen_cmd_set_remove_done U rnd ord args s)). Qed.
Print Assumptions Src_collections_set_remove.

Theorem Src_collections_set_contains : gen_cmd_set_contains_understood = true ->
  forall rnd ord args s, gen_cmd_set_contains rnd ord args s = cmd_set_contains args s /\
                         gen_cmd_set_contains rnd ord args s = Done (step_s rnd ord CSetContains args s).
Proof. exact (fun U rnd ord args s => conj (gen_cmd_set_contains_eq U rnd ord args s) (gen_cmd_set_contains_done U rnd ord args s)). Qed.
Print Assumptions Src_collections_set_contains.

Theorem Src_collections_set_size : gen_cmd_set_size_understood = true ->
  forall rnd ord args s, gen_cmd_set_size rnd ord args s = cmd_set_size args s /\
                         gen_cmd_set_size rnd ord args s = Done (step_s rnd ord CSetSize args s).
Proof. exact (fun U rnd ord args s => conj (gen_cmd_set_size_eq U rnd ord args s) (gen_cmd_set_size_done U rnd ord args s)). Qed.
Print Assumptions Src_collections_set_size.

Theorem Src_collections_set_clear : gen_cmd_set_clear_understood = true ->
  forall rnd ord args s, gen_cmd_set_clear rnd ord args s = cmd_set_clear args s /\
                         gen_cmd_set_clear rnd ord args s = Done (step_s rnd ord CSetClear args s).
Proof. exact (fun U rnd ord args s => conj (gen_cmd_set_clear_eq U rnd ord args s) (gen_cmd_set_clear_done U rnd ord args s)). Qed.
Print Assumptions Src_collections_set_clear.

Theorem Src_collections_set_to_array : gen_cmd_set_to_array_understood = true ->
  forall rnd ord args s, gen_cmd_set_to_array rnd ord args s = cmd_set_to_array rnd ord args s /\
                         gen_cmd_set_to_array rnd ord args s = Done (step_s rnd ord CSetToArray args s).
Proof. exact (fun U rnd ord args s => conj (gen_cmd_set_to_array_eq U rnd ord args s) (gen_cmd_set_to_array_done U rnd ord args s)). Qed.
Print Assumptions Src_collections_set_to_array.

Theorem Src_collections_is_array : gen_cmd_is_array_understood = true ->
  forall rnd ord args s, gen_cmd_is_array rnd ord args s = cmd_is_array args s /\
                         gen_cmd_is_array rnd ord args s = Done (step_s rnd ord CIsArray args s).
Proof. exact (fun U rnd ord args s => conj (gen_cmd_is_array_eq U rnd ord args s) (gen_cmd_is_array_done U rnd ord args s)). Qed.
Print Assumptions Src_collections_is_array.

Theorem Src_collections_is_map : gen_cmd_is_map_understood = true ->
  forall rnd ord args s, gen_cmd_is_map rnd ord args s = cmd_is_map args s /\
                         gen_cmd_is_map rnd ord args s = Done (step_s rnd ord CIsMap args s).
Proof. exact (fun U rnd ord args s => conj (gen_cmd_is_map_eq U rnd ord args s) (gen_cmd_is_map_done U rnd ord args s)). Qed.
Print Assumptions Src_collections_is_map.

Theorem Src_collections_is_set : gen_cmd_is_set_understood = true ->
  forall rnd ord args s, gen_cmd_is_set rnd ord args s = cmd_is_set args s /\
                         gen_cmd_is_set rnd ord args s = Done (step_s rnd ord CIsSet args s).
Proof. exact (fun U rnd ord args s => conj (gen_cmd_is_set_eq U rnd ord args s) (gen_cmd_is_set_done U rnd ord args s)). Qed.
Print Assumptions Src_collections_is_set.

Theorem Src_collections_release : gen_cmd_release_understood = true ->
  forall rnd ord args s, gen_cmd_release rnd ord args s = cmd_release args s /\
                         gen_cmd_release rnd ord args s = Done (step_s rnd ord CRelease args s).
Proof. exact (fun U rnd ord args s => conj (gen_cmd_release_eq U rnd ord args s) (gen_cmd_release_done U rnd ord args s)). Qed.
Print Assumptions Src_collections_release.

