(* C09 — Wrapping a command in if / elseif / while / not / an alias does not change its arguments.
   Property theorems only; every proof is [exact <lemma>].
   Model: EvalSer.v (eval::parse's text construction, then Parser.parse_text, then the second
   binding Expansion.bind_command_arguments done by run_instruction).  The argument classes
   cls_NL cls_Q cls_H cls_D cls_B cls_P (any argument), cls_E (first), cls_W (last) are the unsafe
   classes of finding F7; [safe] is their complement. *)
Require Import DS.Base DS.Parser DS.Expansion DS.EvalSer DS.EvalSerFacts.

(* for EVERY variable environment: the rebuilt line parses to the same command word and re-binds
   to exactly the same argument values *)
Theorem C09_roundtrip : forall cmd args e,
  is_cmd cmd = true -> forallb safe args = true -> head_ok args = true -> last_ok args = true ->
  eval_call e (cmd :: args) = Call None None cmd args.
Proof. exact roundtrip. Qed.

(* the same for the purely syntactic classes (no CR/LF; no leading quote, no quote with a space; no #
   without a space; no "${" or "%{"; no back-slash directly before $ or %; no % with a space), which
   contain the scanner-defined classes D, B, P *)
Theorem C09_safe_simple : forall a, safe_simple a = true -> safe a = true.
Proof. exact safe_simple_safe. Qed.
Theorem C09_roundtrip_simple : forall cmd args e,
  is_cmd cmd = true -> forallb safe_simple args = true -> head_ok args = true -> last_ok args = true ->
  eval_call e (cmd :: args) = Call None None cmd args.
Proof. exact roundtrip_simple. Qed.

(* the second binding alone: a safe value is data, whatever the variables hold *)
Theorem C09_rebind : forall a e, safe a = true -> bound_of (expand_by_wrapper a e) = [a].
Proof. exact rebind_safe. Qed.

(* every unsafe class is inhabited by a value that does not survive (known findings F7) *)
Theorem C09_Q_refuted : cls_Q [34; 97; 34] = true /\ refutes [[34; 97; 34]].
Proof. exact Q_refuted. Qed.
Theorem C09_Q2_refuted : cls_Q [97; 34; 32; 98] = true /\ refutes [[97; 34; 32; 98]].
Proof. exact Q2_refuted. Qed.
Theorem C09_H_refuted : cls_H [97; 35; 98] = true /\ refutes [[97; 35; 98]].
Proof. exact H_refuted. Qed.
Theorem C09_NL_refuted : cls_NL [97; 10; 98] = true /\ refutes [[97; 10; 98]].
Proof. exact NL_refuted. Qed.
Theorem C09_D_refuted : cls_D [36; 123; 120; 125] = true /\ refutes [[36; 123; 120; 125]].
Proof. exact D_refuted. Qed.
Theorem C09_P_refuted : cls_P [97; 32; 37; 98; 32; 99] = true /\ refutes [[97; 32; 37; 98; 32; 99]].
Proof. exact P_refuted. Qed.
Theorem C09_B_refuted : cls_B [92; 36] = true /\ refutes [[92; 36]].
Proof. exact B_refuted. Qed.
Theorem C09_E_refuted : cls_E [61; 120] = true /\ safe [61; 120] = true /\ refutes [[61; 120]].
Proof. exact E_refuted. Qed.
Theorem C09_W_refuted : cls_W [97; 9] = true /\ safe [97; 9] = true /\ refutes [[97; 9]].
Proof. exact W_refuted. Qed.

(* non-vacuity: hostile but safe values (empty; spaces with # and back-slash; $x%; $${x}; two back-slashes and $; = QUOTE TAB a) survive *)
Theorem C09_nonvacuous :
  forallb safe w_safe_args = true /\ head_ok w_safe_args = true /\ last_ok w_safe_args = true /\
  eval_call (env_of_list [([120], [122])]) (w_cmd :: w_safe_args) = Call None None w_cmd w_safe_args.
Proof. exact roundtrip_example. Qed.

(* ---- index-faithful model (EvalSerIx.v): eval.rs::parse over the index-faithful parser, with
   `instructions[0]` as an explicit partial operation, and the second binding over the index-faithful
   binder.  The text assembly itself has no partial operation. ---------------------------------------- *)
Require Import DS.ParserIx DS.ExpansionIx DS.EvalSerIx DS.EvalSerIxProof.

(* what if / elseif / while / not / alias commands run (the `is_empty` guard, parse, re-bind):
   no panic for ANY argument vector and ANY environment *)
Theorem C09_ix_total : forall variables arguments, eval_call_ix variables arguments <> CallPanic.
Proof. exact eval_call_ix_total. Qed.
(* the index model equals the suffix model, so C09_roundtrip etc. transfer *)
Theorem C09_ix_refines : forall variables arguments,
  eval_call_ix variables arguments = eval_call variables arguments.
Proof. exact eval_call_ix_refines. Qed.
(* the private fn `parse` alone: total on every non-empty vector ... *)
Theorem C09_ix_parse_total : forall arguments, arguments <> [] -> eval_parse_ix arguments <> ParsePanic.
Proof. exact eval_parse_ix_total. Qed.
Theorem C09_ix_parse_refines : forall arguments, eval_parse_ix arguments = eval_parse arguments.
Proof. exact eval_parse_ix_refines. Qed.
(* ... and it does index an empty instruction vector when handed no arguments (not reachable: eval and
   eval_with_instructions both test `arguments.is_empty()` first) *)
Theorem C09_ix_parse_unguarded_refuted : exists arguments, eval_parse_ix arguments = ParsePanic.
Proof. exact eval_parse_ix_unguarded. Qed.
