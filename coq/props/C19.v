(* C19 — script-implemented library commands leave no trace in the caller's variables.
   Property theorems only. *)
Require Import DS.Base DS.Parser DS.ScriptConf DS.ScriptConfProof DS.AliasCmd DS.AliasCmdProof.
From stdpp Require Import gmap.
Require DSG.GenScripts.

(* every script-implemented command of the current tree passes the syntactic confinement check:
   output variables and for-in variables carry the scope prefix of the wrapper it is registered
   with, and it only invokes flow keywords, variable-pure native commands, other script commands,
   or (unset only) set_by_name *)
Theorem C19_scripts : all_scripts_confined = true.
Proof. exact scripts_confined. Qed.
Theorem C19_scripts_parse :
  forallb (fun s => match parse_text (DSG.GenScripts.sc_text s) with TOk _ => true | _ => false end)
          DSG.GenScripts.gen_scripts = true.
Proof. exact scripts_parse. Qed.
Theorem C19_scripts_nonvacuous : (5 <=? length DSG.GenScripts.gen_scripts)%nat = true.
Proof. exact scripts_nonempty. Qed.

(* the wrapper, for EVERY body (success or error, any script): no working variable remains *)
Theorem C19_no_working_variable : forall fresh body P min_args args v h r v' h' k,
  alias_run fresh body P min_args args v h = (r, v', h') -> (min_args <= length args)%nat ->
  hasp P k = true -> v' !! k = None.
Proof. exact no_working_variable_left. Qed.

(* ... and the collection created for argument passing is released *)
Theorem C19_argument_array_released : forall fresh body P min_args a0 args0 v h r v' h',
  alias_run fresh body P min_args (a0 :: args0) v h = (r, v', h') ->
  (min_args <= length (a0 :: args0))%nat -> fresh h ∉ h'.
Proof. exact argument_array_released. Qed.

(* for a body confined to the prefix: no caller variable is modified *)
Theorem C19_caller_variables : forall fresh body P min_args args v h r v' h',
  confined body P -> alias_run fresh body P min_args args v h = (r, v', h') ->
  forall k, hasp P k = false -> v' !! k = v !! k.
Proof. exact caller_variables_unchanged. Qed.

(* ... up to the documented deletions D (unset) *)
Theorem C19_caller_variables_mod : forall fresh body P min_args D args v h r v' h',
  confined_mod body P D -> alias_run fresh body P min_args args v h = (r, v', h') ->
  forall k, hasp P k = false -> v' !! k = v !! k \/ (D k = true /\ v' !! k = None).
Proof. exact caller_variables_preserved. Qed.

(* ... and the wrapper's own leak check cannot fire: the outcome is the body's outcome *)
Theorem C19_leak_check_never_fires : forall fresh body P min_args D args v h,
  confined_mod body P D -> (min_args <= length args)%nat ->
  exists fr fo v2 h2 v1 h1, body v1 h1 = (fr, fo, v2, h2) /\
    (alias_run fresh body P min_args args v h).1.1 = match fr with Some r => r | None => WContinue fo end.
Proof. exact leak_check_never_fires. Qed.
