(* C19 — script-implemented library commands leave no trace in the caller's variables.
   Property theorems only. *)
Require Import DS.Base DS.Parser DS.ScriptConf DS.ScriptConfProof DS.AliasCmd DS.AliasCmdProof.
From stdpp Require Import gmap.
Require DSG.GenScripts.

(* every script-implemented command of the current tree passes the syntactic confinement check:
   output variables and for-in variables carry the scope prefix of the wrapper it is registered
   with, and it only invokes flow keywords, variable-pure native commands, other script commands,
   or (unset only) set_by_name *)
Theorem C19_scripts : all_scripts_confined = true.
Proof. exact scripts_confined. Qed.
Theorem C19_scripts_parse :
  forallb (fun s => match parse_text (DSG.GenScripts.sc_text s) with TOk _ => true | _ => false end)
          DSG.GenScripts.gen_scripts = true.
Proof. exact scripts_parse. Qed.
Theorem C19_scripts_nonvacuous : (5 <=? length DSG.GenScripts.gen_scripts)%nat = true.
Proof. exact scripts_nonempty. Qed.

(* the wrapper, for EVERY body (success or error, any script): no working variable remains *)
Theorem C19_no_working_variable : forall fresh body P min_args args v h r v' h' k,
  alias_run fresh body P min_args args v h = (r, v', h') -> (min_args <= length args)%nat ->
  hasp P k = true -> v' !! k = None.
Proof. exact no_working_variable_left. Qed.

(* ... and the collection created for argument passing is released *)
Theorem C19_argument_array_released : forall fresh body P min_args a0 args0 v h r v' h',
  alias_run fresh body P min_args (a0 :: args0) v h = (r, v', h') ->
  (min_args <= length (a0 :: args0))%nat -> fresh h ∉ h'.
Proof. exact argument_array_released. Qed.

(* for a body confined to the prefix: no caller variable is modified *)
Theorem C19_caller_variables : forall fresh body P min_args args v h r v' h',
  confined body P -> alias_run fresh body P min_args args v h = (r, v', h') ->
  forall k, hasp P k = false -> v' !! k = v !! k.
Proof. exact caller_variables_unchanged. Qed.

(* ... up to the documented deletions D (unset) *)
Theorem C19_caller_variables_mod : forall fresh body P min_args D args v h r v' h',
  confined_mod body P D -> alias_run fresh body P min_args args v h = (r, v', h') ->
  forall k, hasp P k = false -> v' !! k = v !! k \/ (D k = true /\ v' !! k = None).
Proof. exact caller_variables_preserved. Qed.

(* ... and the wrapper's own leak check cannot fire: the outcome is the body's outcome *)
Theorem C19_leak_check_never_fires : forall fresh body P min_args D args v h,
  confined_mod body P D -> (min_args <= length args)%nat ->
  exists fr fo v2 h2 v1 h1, body v1 h1 = (fr, fo, v2, h2) /\
    (alias_run fresh body P min_args args v h).1.1 = match fr with Some r => r | None => WContinue fo end.
Proof. exact leak_check_never_fires. Qed.

(* ===== confined_sound: the syntactic check is semantically sound (builder task B1) =================
   Model: ScriptBody.v — eval_instructions (SdkErr.v, reused) over run_instruction (Runner.v, reused)
   with bind_command_arguments (Expansion.v, reused), AliasCommand::run for nested script commands,
   eval_condition / eval_with_instructions with the re-parse of utils/eval.rs (EvalSer.v, reused).
   Native commands are universally quantified and constrained only by [frame_hyps] (one clause per
   class of the check; each clause is validated against the real SDK on every run of the check). *)
Require Import DS.Expansion DS.ExpansionSpec DS.EvalSer DS.Runner DS.SdkErr.
Require Import DS.ScriptBody DS.ScriptBodyProof DS.ScriptBodyToy DS.ScriptBodyGen.

(* every regenerated script passes the strengthened check: the old one, and on the instructions the
   runner sees: output variables under the prefix; for-in variable a literal ($ % backslash free) name
   under the prefix; commands from the tables, `unset` never called from a script, set_by_name only in
   unset with exactly one "${name}" argument; conditions start with a value reference or with a
   literal, command-shaped, permitted command word *)
Theorem C19_scripts_strong : all_scripts_confined_s = true.
Proof. exact gen_scripts_confined_s. Qed.
Print Assumptions C19_scripts_strong.
Theorem C19_table_ok : table_ok_s gen_table = true.
Proof. exact gen_table_ok_s. Qed.
Print Assumptions C19_table_ok.

(* confined_sound, for ANY script table that passes the check and any body over it: run to the end
   with the ghost flag down, the body changes no variable outside the reserved prefixes (unset: may
   delete, never changes) and neither changes nor creates a variable outside its own prefix.
   All fuels, all nesting depths, all variables, all native commands satisfying the frame clauses. *)
Theorem C19_confined_sound :
  forall (ustate : Type) (table : list sentry) (fresh : handles -> str)
         (store_args : str -> list str -> ustate -> ustate) (drop_handle : str -> ustate -> ustate)
         (set_ctx : str -> ustate -> str * ustate) (nexists : ustate -> str -> bool)
         (ncmd : str -> list Runner.instr -> inv -> nat_t ustate)
         (cond_pre : str -> list Runner.instr -> inv -> vmap -> handles -> ustate -> option result * vmap * handles * ustate)
         (cond_post : str -> list Runner.instr -> inv -> option bool -> nat_t ustate),
  frame_hyps ustate ncmd cond_pre cond_post -> table_ok table = true ->
  forall fuel n scope body v h u r out v' h' u',
  scope_in table scope -> forallb (iok table scope) body = true ->
  script_body ustate table fresh store_args drop_handle set_ctx nexists ncmd cond_pre cond_post
              fuel n scope body v h u = SBDone r out v' h' u' false ->
  (forall k, reserved table k = false -> v' !! k = v !! k \/ (is_unset scope = true /\ v' !! k = None)) /\
  (forall k, hasp (s_scope ++ scope) k = false -> v' !! k = v !! k \/ v' !! k = None).
Proof. exact confined_sound. Qed.
Print Assumptions C19_confined_sound.

(* ... for the script table of the current tree *)
Theorem C19_confined_sound_scripts :
  forall (ustate : Type) (fresh : handles -> str)
         (store_args : str -> list str -> ustate -> ustate) (drop_handle : str -> ustate -> ustate)
         (set_ctx : str -> ustate -> str * ustate) (nexists : ustate -> str -> bool)
         (ncmd : str -> list Runner.instr -> inv -> nat_t ustate)
         (cond_pre : str -> list Runner.instr -> inv -> vmap -> handles -> ustate -> option result * vmap * handles * ustate)
         (cond_post : str -> list Runner.instr -> inv -> option bool -> nat_t ustate),
  frame_hyps ustate ncmd cond_pre cond_post ->
  forall s fuel n v h u r out v' h' u',
  In s gen_table ->
  script_body ustate gen_table fresh store_args drop_handle set_ctx nexists ncmd cond_pre cond_post
              fuel n (se_scope s) (se_body s) v h u = SBDone r out v' h' u' false ->
  (forall k, reserved gen_table k = false -> v' !! k = v !! k \/ (is_unset (se_scope s) = true /\ v' !! k = None)) /\
  (forall k, hasp (se_P s) k = false -> v' !! k = v !! k \/ v' !! k = None).
Proof. exact confined_sound_gen. Qed.
Print Assumptions C19_confined_sound_scripts.

(* end to end: ANY script command of the current tree, any arguments, any caller variables, invoked
   at any depth budget, run to the end with the flag down:
   every caller variable outside the reserved prefixes is as before (unset: or deleted); nothing is
   left under the command's own prefix; the argument array is released; there are no more variables
   than before, so the wrapper's leak check cannot fire and the answer is the answer of the body run
   on the variables the wrapper prepared *)
Theorem C19_every_script_command :
  forall (ustate : Type) (fresh : handles -> str)
         (store_args : str -> list str -> ustate -> ustate) (drop_handle : str -> ustate -> ustate)
         (set_ctx : str -> ustate -> str * ustate) (nexists : ustate -> str -> bool)
         (ncmd : str -> list Runner.instr -> inv -> nat_t ustate)
         (cond_pre : str -> list Runner.instr -> inv -> vmap -> handles -> ustate -> option result * vmap * handles * ustate)
         (cond_post : str -> list Runner.instr -> inv -> option bool -> nat_t ustate),
  frame_hyps ustate ncmd cond_pre cond_post ->
  forall s fuel n args v h u r v' h' u',
  In s gen_table ->
  script_command ustate gen_table fresh store_args drop_handle set_ctx nexists ncmd cond_pre cond_post
                 fuel n s args v h u = SCDone r v' h' u' false ->
  (forall k, reserved gen_table k = false -> v' !! k = v !! k \/ (is_unset (se_scope s) = true /\ v' !! k = None)) /\
  (se_min s <= length args -> forall k, hasp (se_P s) k = true -> v' !! k = None)%nat /\
  (se_min s <= length args -> forall a0 ar, args = a0 :: ar -> fresh h ∉ h')%nat /\
  (size v' <= size v)%nat /\
  ((se_min s <= length args)%nat ->
   exists o, ev ustate gen_table fresh store_args drop_handle set_ctx nexists ncmd cond_pre cond_post
                fuel n (se_scope s) (se_body s) 0
                (alias_start ustate fresh store_args set_ctx s args (start ustate v h u)) = Some o /\
             r = flow_answer ustate o).
Proof. exact every_script_command_gen. Qed.
Print Assumptions C19_every_script_command.

(* when is the flag raised?  Not at a condition site whose received command word is permitted by
   the check and whose remaining received arguments are inside C09's safe classes ... *)
Theorem C19_condition_site : forall t scope c args,
  is_cmd c = true -> forallb safe args = true -> head_ok args = true -> last_ok args = true ->
  cmd_iok t scope c [] = true ->
  exists ty, eval_parse (c :: args) = ParsedOk ty /\ iok t scope (cond_instr ty) = true.
Proof. exact cond_site_ok. Qed.
Print Assumptions C19_condition_site.
(* ... and a condition WRITTEN with a literal command word is received with that word in front,
   command-shaped and permitted (value references are not constrained statically) *)
Theorem C19_condition_static : forall t scope a r, cond_ok_s t scope (a :: r) = true ->
  (exists x a', a = x :: a' /\ x = c_dollar) \/
  ((forall e, bind_args e (a :: r) = a :: bind_args e r) /\ is_cmd a = true /\ cmd_iok t scope a [] = true /\
   (a = s_not -> cond_ok_s t scope r = true)).
Proof. exact cond_static_head. Qed.
Print Assumptions C19_condition_static.

(* the "flag down" hypothesis cannot be dropped: array_concat's own script, over commands that
   satisfy every frame clause, deletes the caller's variable `is_array` when its loop variable holds
   "=" (the re-parse of utils/eval.rs turns `is_array =` into an assignment without a command) *)
Theorem C19_confined_sound_unflagged_refuted :
  exists ncmd cond_pre cond_post, frame_hyps unit ncmd cond_pre cond_post /\
  exists s fuel n v r out v' h' u' k x,
    In s gen_table /\ is_unset (se_scope s) = false /\
    script_body unit gen_table toy_fresh (fun _ _ u => u) (fun _ u => u) (fun _ u => ([], u)) (fun _ _ => true)
                ncmd cond_pre cond_post fuel n (se_scope s) (se_body s) v ∅ tt = SBDone r out v' h' u' true /\
    reserved gen_table k = false /\ v !! k = Some x /\ v' !! k = None.
Proof. exact confined_sound_unflagged_refuted. Qed.
Print Assumptions C19_confined_sound_unflagged_refuted.
