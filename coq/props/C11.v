(* C11 — Variable commands and the scope stack behave like a map and a stack of maps.
   Property theorems only; every proof is [exact <lemma>].
   M: theories/Scope.v (Rust-shaped scope::push / scope::pop, the var commands, `unset` through its
   wrapper and script, the runner's update_output); S: theories/ScopeSpec.v (a plain map and a
   stack of saved maps). *)
From stdpp Require Import gmap list sorting.
Require Import DS.Registry DS.RegistryProof DS.Scope DS.ScopeSpec DS.ScopeProof.
Require DS.ScopeTables DSG.GenUnset.

(* the regenerated text of unset's script.ds and the scope name / alias / argument count given to
   create_alias_command are the ones the model of `unset` is written for *)
Theorem C11_tables :
  DSG.GenUnset.gen_unset_understood = true /\
  DSG.GenUnset.gen_unset_script = DS.ScopeTables.expected_unset_script /\
  unset_scope = ([115;99;111;112;101;58;58]%N ++ DSG.GenUnset.gen_unset_scope)%list /\
  DSG.GenUnset.gen_unset_aliases = [[117;110;115;101;116]%N] /\
  DSG.GenUnset.gen_unset_min_args = 0%N.
Proof. exact DS.ScopeTables.unset_tables_wf. Qed.

(* for every history whose variable names stay out of unset's private scope, after every step the
   command's outcome and the whole variable map of M and S agree, and so do the final states
   (variables and saved stack) *)
Theorem C11_refines : forall ops, Forall op_safe ops -> m_run ms_init ops = s_run true ms_init ops.
Proof. exact (fun ops H => run_refines ops ms_init safe_init H). Qed.
Theorem C11_refines_step : forall s o, safe_map (vars s) -> m_step s o = s_step true s o.
Proof. exact m_step_spec. Qed.

(* M never crashes, for any names and any state (the wrapper's leak check cannot fire; push and
   pop have no failing operation left) *)
Theorem C11_nopanic : forall ops s, Forall (fun rv => rv.1 <> OCrash) (m_run s ops).1.
Proof. exact m_run_nocrash. Qed.

(* popping an empty stack is an error that changes nothing *)
Theorem C11_pop_empty : forall s c, stack s = [] -> m_cmd s (CPop c) = (OErr, s).
Proof. exact m_pop_empty. Qed.

(* push saves everything and keeps only the copied names that are defined; pop restores the saved
   map and overlays the copied names that are defined *)
Theorem C11_push_spec : forall s copy, m_push s copy = s_push s copy.
Proof. exact m_push_spec. Qed.
Theorem C11_pop_spec : forall s copy, m_pop s copy = s_pop true s copy.
Proof. exact m_pop_spec. Qed.
(* unset through its wrapper and script removes exactly the named variables, whatever the handle *)
Theorem C11_unset_spec : forall vs ns h, safe_map vs -> m_unset vs ns h = (ONone, s_unset vs ns).
Proof. exact m_unset_spec. Qed.

(* pops match pushes last-in-first-out: a push, any history in which every pop is matched by an
   earlier push of that history, and a pop give back exactly the state before the push *)
Theorem C11_lifo : forall pol s out c mid, balanced 0 mid = Some 0 ->
  (s_run pol s (Op out (CPush c) :: mid ++ [Op None (CPop None)])).2 = s.
Proof. exact s_lifo. Qed.
Theorem C11_lifo_M : forall s out c mid,
  safe_state s -> Forall op_safe (Op out (CPush c) :: mid ++ [Op None (CPop None)]) ->
  balanced 0 mid = Some 0 ->
  (m_run s (Op out (CPush c) :: mid ++ [Op None (CPop None)])).2 = s.
Proof. exact m_lifo. Qed.

(* get_all_var_names: exactly the defined names (observed sorted) *)
Theorem C11_names : forall vs,
  StronglySorted name_lt (var_names vs) /\ NoDup (var_names vs) /\
  forall n, n ∈ var_names vs <-> is_Some (vs !! n).
Proof. exact var_names_spec. Qed.

(* for a name that is undefined when copied on pop the property leaves the result open; the two
   admissible treatments agree on every other name, and coincide when all copied names are defined *)
Theorem C11_pol_agree : forall s copy,
  (forall k, k ∉ copy \/ is_Some (vars s !! k) ->
     vars (s_pop true s copy).2 !! k = vars (s_pop false s copy).2 !! k) /\
  ((forall k, k ∈ copy -> is_Some (vars s !! k)) -> s_pop false s copy = s_pop true s copy).
Proof. exact (fun s copy => conj (s_pop_pol_agree s copy) (s_pop_pol_same s copy)). Qed.

(* non-vacuity: the F4 history (copy of an undefined name on push and on pop, the same name twice,
   pop of an empty stack) is in the domain and runs without failure *)
Theorem C11_nonvacuous :
  Forall op_safe f4_history /\
  (m_run ms_init f4_history).1.*1 = [OVal v_1; OVal lit_true; OVal lit_true; OErr] /\
  vars (m_run ms_init f4_history).2 = {[ nm_a := v_1 ]}.
Proof. exact f4_witness. Qed.
