(* C18 — File commands behave like operations on a simple file tree.   PARTIAL by nature: the
   primitives (std::fs / fsio / fs_extra / the OS) are specified as model functions in FsTree.v and
   validated by the correspondence run only; what is proved is that each command's decision logic
   over those primitives (M) computes, step by step, the reference file tree (S) written from the
   property text, and that S obeys the laws the property states.
   Property theorems only; every proof is [exact <lemma>]. *)
From Coq Require Import NArith List.
From stdpp Require Import gmap list.
Require Import DS.FsTree DS.FsProof DS.FsLaws.

(* On every history in the property's domain (well-formed paths, no directory source for cp / mv,
   valid rm flags, join_path arguments free of the characters of F7/F8), started from any file tree,
   that meets none of the known classes, the commands' outputs and trees after EVERY step equal the
   reference model's — whatever rename / dir::copy / move_dir (directory sources) do. *)
Theorem C18_refines :
  forall (p_rename x_dir_copy x_move_dir : path -> path -> tree -> pres) ops t,
    wf t -> in_domain ops t -> ~ Known ops t ->
    run (M_step p_rename x_dir_copy x_move_dir) ops t = run S_step ops t.
Proof. exact refines. Qed.
(* the same with the three classes named: F15, parents left behind by a failing operation on a
   name written as a directory, mv into a directory that has the name *)
Theorem C18_refines_classes :
  forall (p_rename x_dir_copy x_move_dir : path -> path -> tree -> pres) ops t,
    wf t -> in_domain ops t ->
    ~ KnownF15 ops t -> ~ KnownPartialParents ops t -> ~ KnownMvNoClobber ops t ->
    run (M_step p_rename x_dir_copy x_move_dir) ops t = run S_step ops t.
Proof. exact refines_classes. Qed.
(* the reference model keeps a tree a tree (everything above an entry is a directory) *)
Theorem C18_wf :
  wf ∅ /\ forall ops t, wf t -> in_domain ops t -> Forall (fun ot => wf ot.2) (run S_step ops t).
Proof. exact (conj wf_empty run_S_wf). Qed.
(* the loop of join_path's script never runs out of fuel and computes "join, collapse separators" *)
Theorem C18_join_total : forall args, M_join args = Some (S_join args).
Proof. exact M_join_S_join. Qed.
(* String::as_bytes then String::from_utf8 is the identity on scalar values *)
Theorem C18_utf8 : forall s, forallb scalar s = true -> utf8_decode (utf8_encode s) = Some s.
Proof. exact utf8_roundtrip. Qed.

(* the laws of the property text, about S *)
Theorem C18_laws :
  (* what is written is what is read (bytes, and text through UTF-8) *)
  (forall p b t t', S_write p b t = (OVal s_true, t') -> S_readb p t' = (OBytes b, t')) /\
  (forall p s t t', forallb scalar s = true -> S_step (Write p s) t = (OVal s_true, t') ->
                    S_step (Read p) t' = (OVal s, t')) /\
  (* append extends; appending to a missing file writes it *)
  (forall p c b t, S_readb p t = (OBytes c, t) ->
     exists t', S_append p b t = (OVal s_true, t') /\ S_readb p t' = (OBytes (c ++ b), t')) /\
  (forall p b t, stat p t = None -> S_append p b t = S_write p b t) /\
  (* copying a file leaves the source, makes an equal target, its parent directories exist, and
     nothing outside the target's ancestors changes *)
  (forall a b c t t', stat a t = Some (File c) -> S_cp a b t = (OVal s_true, t') ->
     stat a t' = Some (File c) /\ stat b t' = Some (File c) /\ is_dir_at t' (parent (pk b)) = true /\
     (forall q, ~ q `prefix_of` pk b -> t' !! q = t !! q)) /\
  (* moving a file = copy then delete; into the target when that is an existing directory *)
  (forall a b t, p_is_file a t = true -> p_is_dir b t = false -> ends_sep b = false ->
     S_mv a b t = (let '(o, t1) := S_cp a b t in
                   match o with OVal _ => S_rm None [a] t1 | _ => (OErr, t) end)) /\
  (forall a b name t, p_is_dir b t = true -> last (pk a) = Some name ->
     p_is_dir (pjoin b name) t = false -> ends_sep (pjoin b name) = false ->
     S_mv a b t = S_mv a (pjoin b name) t) /\
  (* delete removes exactly the named path; a non-empty directory only with -r *)
  (forall r p t t', S_rm_one r p t = (true, t') ->
     stat p t' = None /\ (forall q, ~ pk p `prefix_of` q -> t' !! q = t !! q)) /\
  (forall p t, stat p t = Some Dir -> dir_empty t (pk p) = false ->
     S_rm None [p] t = (OErr, t) /\ S_rmdir p t = (OVal s_false, t) /\
     (S_rm (Some [45;114]%N) [p] t).1 = OVal s_true) /\
  (* a failing operation leaves the tree unchanged (rm of several paths stops at the first failure) *)
  (forall o t, single_target o -> failed (S_step o t).1 -> (S_step o t).2 = t) /\
  (* basename / dirname / join_path *)
  (forall d n, is_clean d -> is_name n ->
     path_basename (S_join [d; n]) = Some n /\ path_dirname (S_join [d; n]) = Some d /\
     M_join [d; n] = Some (S_join [d; n])) /\
  (forall l, S_join [S_join l] = S_join l).
Proof.
  exact (conj read_after_write (conj read_after_write_text (conj append_extends (conj append_missing_is_write
        (conj cp_law (conj mv_is_cp_then_rm (conj mv_into_directory (conj rm_exact (conj rm_nonempty_needs_r
        (conj failed_is_identity (conj path_algebra join_idempotent))))))))))).
Qed.

(* the known classes are real differences between the commands and the reference tree *)
Theorem C18_F15_refuted :
  forall prn xdc xmd,
  let ops := [WriteB w_f [120%N]; Mv w_f w_t] in
  in_domain ops ∅ /\ KnownF15 ops ∅ /\
  (exists t', last (run (M_step prn xdc xmd) ops ∅) = Some (OVal s_true, t') /\ t' !! [[116%N]] = Some Dir /\
              t' !! [[116%N]; [102%N]] = Some (File [120%N]) /\ t' !! [[102%N]] = None) /\
  (exists t', last (run S_step ops ∅) = Some (OVal s_true, t') /\ t' !! [[116%N]] = Some (File [120%N]) /\
              t' !! [[116%N]; [102%N]] = None /\ t' !! [[102%N]] = None).
Proof. exact F15_witness. Qed.
(* cp of a file onto itself (F20, repaired): an error that changes nothing, in the commands and in
   the reference tree, however the target is written as long as it resolves to the same entry *)
Theorem C18_cp_self_error :
  forall xdc a b c t, stat a t = Some (File c) -> pk b = pk a -> ptr b = false ->
    M_cp xdc a b t = (OErr, t) /\ S_cp a b t = (OErr, t).
Proof. exact cp_self_error. Qed.
(* likewise mv of a file onto itself (repaired): error, nothing changes *)
Theorem C18_mv_self_error :
  forall prn xmd a b c t, stat a t = Some (File c) -> pk b = pk a -> ptr b = false -> ends_sep b = false ->
    M_mv prn xmd a b t = (OErr, t) /\ S_mv a b t = (OErr, t).
Proof. exact mv_self_error. Qed.
Theorem C18_partial_parents_refuted :
  forall prn xdc xmd,
  let ops := [WriteB w_nx [113%N]] in
  in_domain ops ∅ /\ KnownPartialParents ops ∅ /\
  (exists t', last (run (M_step prn xdc xmd) ops ∅) = Some (OVal s_false, t') /\ t' !! [[110%N]] = Some Dir) /\
  last (run S_step ops ∅) = Some (OVal s_false, ∅).
Proof. exact partial_parents_witness. Qed.
Theorem C18_mv_noclobber_refuted :
  forall prn xdc xmd,
  let ops := [WriteB w_df [111%N]; WriteB w_f [110%N]; Mv w_f w_d] in
  in_domain ops ∅ /\ KnownMvNoClobber ops ∅ /\
  (exists t', last (run (M_step prn xdc xmd) ops ∅) = Some (OErr, t') /\ t' !! [[102%N]] = Some (File [110%N]) /\
              t' !! [[100%N]; [102%N]] = Some (File [111%N])) /\
  (exists t', last (run S_step ops ∅) = Some (OVal s_true, t') /\ t' !! [[102%N]] = None /\
              t' !! [[100%N]; [102%N]] = Some (File [110%N])).
Proof. exact mv_noclobber_witness. Qed.
