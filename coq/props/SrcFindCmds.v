(* SrcFindCmds — the scanner the C04 / C05 theorems are about IS the current source.
   gen_get_start / gen_get_end / gen_find_commands_body / gen_find_commands_go / gen_find_commands are regenerated on
   every run from duckscript_sdk/src/utils/instruction_query.rs (fn get_start, fn get_end, fn find_commands) by the
   translator lib/rs2v.py (classes PFc / FnFc, client lib/gen/findcmds_gen.py); FlowScanIx.get_start_ix / get_end_ix /
   body_ix / go_ix / find_commands_fuel are the hand-written index-faithful model (whole instruction vector,
   `instructions[line]` with an explicit XPanic, usize line / skip_to, i32 block_delta under the profile flag `checked`,
   recursion on nested openers closed by fuel) that C04_ix_* (props/C04ix.v) prove panic-free and equal to the
   suffix-style scanners FlowScan.find_commands / FlowFn.find_commands_nr.  Proofs: theories/FindCmdsGenTie.v.
   What the generator configuration supplies (types, the bundling of the five name lists into one table, the state
   record, the i32 overflow function, the fuel that closes the recursion, the error-text -> kind table): see
   lib/gen/findcmds_gen.py.  Property theorems only. *)
Require Import DS.Base DS.FlowTables DS.FlowScan DS.CondIx.
Require DS.Parser DS.FlowFn.
Require Import DS.FlowScanIx DS.FlowScanIxProof DS.FindCmdsGenTie.
Require Import DSG.GenFindCmdsFn.
Open Scope nat_scope.

Theorem Src_findcmds_get_start : gen_find_commands_understood = true ->
  forall start, gen_get_start start = get_start_ix start.
Proof. exact gen_get_start_eq. Qed.
Print Assumptions Src_findcmds_get_start.

Theorem Src_findcmds_get_end : gen_find_commands_understood = true ->
  forall e instructions, gen_get_end e instructions = get_end_ix e instructions.
Proof. exact gen_get_end_eq. Qed.
Print Assumptions Src_findcmds_get_end.

(* one iteration of `for line in start_index..end_index { .. }`: translation = hand model, every state and line *)
Theorem Src_findcmds_body : gen_find_commands_understood = true ->
  forall checked T rec instructions allow start e s line,
    gen_find_commands_body checked T rec instructions allow start e s line
    = body_ix checked T rec instructions allow (get_end_ix e instructions) s line.
Proof. exact gen_find_commands_body_eq. Qed.
Print Assumptions Src_findcmds_body.

(* the whole function (name-list test, loop, final error; the recursive call closed by fuel): translation = hand
   model, for every build profile, every fuel, every vector, table, start, end and allow_recursive *)
Theorem Src_findcmds_eq : gen_find_commands_understood = true ->
  forall checked T fuel instructions allow start e,
    gen_find_commands checked T fuel instructions allow start e
    = find_commands_fuel checked T fuel instructions allow start e.
Proof. exact gen_find_commands_eq. Qed.
Print Assumptions Src_findcmds_eq.

(* hence, of the translation of the source itself: no panic, no fuel exhaustion, no dead result — release profile
   on every vector, overflow-checked profile below 2^31 instructions *)
Theorem Src_findcmds_total : gen_find_commands_understood = true ->
  forall T instructions allow start e,
    let r := gen_find_commands false T (S (length instructions)) instructions allow start e in
    r <> XPanic /\ r <> XFuel /\ r <> XOk None /\ r <> XErr XENestedNoEnd.
Proof. exact gen_find_commands_total. Qed.
Print Assumptions Src_findcmds_total.

Theorem Src_findcmds_checked_total : gen_find_commands_understood = true ->
  forall T instructions allow start e, (Z.of_nat (length instructions) < 2147483648)%Z ->
    let r := gen_find_commands true T (S (length instructions)) instructions allow start e in
    r <> XPanic /\ r <> XFuel /\ r <> XOk None /\ r <> XErr XENestedNoEnd.
Proof. exact gen_find_commands_checked_total. Qed.
Print Assumptions Src_findcmds_checked_total.

(* ... and it computes the scanners of the C04 / C05 theorems *)
Theorem Src_findcmds_scan : gen_find_commands_understood = true ->
  forall checked T instructions start, (Z.of_nat (length instructions) < 2147483648)%Z ->
    gen_find_commands checked T (S (length instructions)) instructions true (Some start) None
    = inject (find_commands T (map cmd_of instructions) start).
Proof. exact gen_find_commands_scan. Qed.
Print Assumptions Src_findcmds_scan.

Theorem Src_findcmds_scan_nr : gen_find_commands_understood = true ->
  forall checked T instructions start, (Z.of_nat (length instructions) < 2147483648)%Z ->
    gen_find_commands checked T (S (length instructions)) instructions false (Some start) None
    = inject_nr (DS.FlowFn.find_commands_nr T (map cmd_of instructions) start).
Proof. exact gen_find_commands_scan_nr. Qed.
Print Assumptions Src_findcmds_scan_nr.
