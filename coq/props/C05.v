(* C05 — functions: arguments, return values, early return and scoped isolation.
   Property theorems only; every proof is [exact <lemma>].

   Model: DS.FlowFn (flat machine: Flow.v + function/mod.rs + utils/scope.rs), tables
   DSG.GenFlowNames / DSG.GenFnNames regenerated from the Rust sources.
   Spec: DS.FlowFnTree (programs with function definitions, [compile_prog], [prog_run]; a call runs
   the body with fresh loop state and catches the return signal; <scope> functions run on a cleared
   variable map and give back the caller's map plus the output variable). *)
Require Import DS.Base DS.FlowTables DS.FlowTablesWf DS.FlowScan DS.Flow DS.FlowFn DS.FlowFnTree DS.FlowFnDom
  DS.FlowFnScan DS.FlowFnSim DS.FlowFnThms DS.FlowFnSites DS.FlowFnRec DS.FlowFnRecThms DS.FlowFnReach DS.FlowFnFinal.
Open Scope nat_scope.

(* the regenerated keyword tables are well-formed; the additional facts C05 uses (function table,
   spellings of function / end_function / return, allow_recursive = false) hold by computation *)
Theorem C05_tables : tables_wf = true /\ fn_tables_ok = true.
Proof. exact (conj gen_tables_wf fn_tables_wf). Qed.

(* the scan performed by `fn name` finds the function's own end over any well-nested body *)
Theorem C05_fn_end : forall (callable : str -> Prop) pre b c rest,
  pgb callable true b -> In c fn_closers ->
  (if DSG.GenFlowNames.gen_function_allow_recursive
   then find_commands gen_function_tables (pre ++ fcmds (gb b) ++ Some c :: rest) (length pre)
   else find_commands_nr gen_function_tables (pre ++ fcmds (gb b) ++ Some c :: rest) (length pre))
  = SOk [] (length pre + length (gb b)).
Proof. exact find_fn_end. Qed.

(* simulation (full statement of DESIGN §7 C05 for calls in statement position): for every
   well-formed program outside KnownF6 — any number of functions, scoped or not, nested and
   RECURSIVE calls (call-graph cycles), returns at any depth of if / while, repeated calls — whatever
   the tree-walking interpreter computes, the flat machine computes on the compiled program: it runs
   past the last line (never stuck, no Error / Crash / Panic) in exactly that world (emit trace,
   variables, arrays), with the for-in stack, the function call stack and the scope stack empty.
   Proof: frame statement with site-based junk (FlowFnSites.sites_unique: every stack entry for a
   given line carries the same block positions; junk if-entries have passed = true), the for-in
   stack discipline of KnownF6 (entries of outer activations belong to functions the current one
   cannot be reached from), completeness of the bounded reachability of [known_f6]
   (FlowFnReach.reach_complete).
   Calls in condition position: C05_sim_cond below (model FlowFnC.v, spec FlowFnCTree.v). *)
Theorem C05_sim : forall p, tables_wf = true -> wf_prog p = true -> known_f6 p = false ->
  forall n w w', prog_run n p w = FOk w' ->
  exists fuel f' g', (forall k, fuel <= k -> frun_program k (compile_prog p) w = FDone (w', f', g')) /\
                     f_forstk f' = [] /\ fs_stk g' = [] /\ fs_scopes g' = [].
Proof. exact rec_sim. Qed.

(* the key fact behind it: a line is the end line or an else line of at most one block site *)
Theorem C05_sites_unique : forall p x y k,
  In x (prog_sites p) -> In y (prog_sites p) -> In k (keys x) -> In k (keys y) -> x = y.
Proof. exact sites_unique. Qed.

(* first proof (kept): the same conclusion for programs whose calls follow the definition order,
   by line regions instead of sites *)
Theorem C05_sim_ordered : forall p, tables_wf = true -> ordered_prog p = true ->
  forall n w w', prog_run n p w = FOk w' ->
  exists fuel f' g', (forall k, fuel <= k -> frun_program k (compile_prog p) w = FDone (w', f', g')) /\
                     f_forstk f' = [] /\ fs_stk g' = [] /\ fs_scopes g' = [].
Proof. exact fn_sim_ordered. Qed.

(* F6: the for-in iteration state is keyed by line, not by activation.  Two well-formed KnownF6
   programs on which the flat machine and the structured semantics differ: a loop left through
   return resumes where it stopped on the next call (x = f; y = f; z = f gives a, b, c instead of
   a, a, a) and a recursive re-entry steals the outer loop's entry (the run ends in the error
   "end for/in ... not currently running part of a for/in invocation flow") *)
Theorem C05_F6_refuted_return :
  wf_prog f6_return = true /\ known_f6 f6_return = true /\
  exists ws wf ff sf, prog_run 50 f6_return world0 = FOk ws /\
                      frun_program 200 (compile_prog f6_return) world0 = FDone (wf, ff, sf) /\
                      vget [117%N] ws = Some [97%N] /\ vget [118%N] ws = Some [97%N] /\ vget [119%N] ws = Some [97%N] /\
                      vget [118%N] wf = Some [98%N] /\ vget [119%N] wf = Some [99%N].
Proof. exact f6_refuted_return. Qed.
Theorem C05_F6_refuted_recursion :
  wf_prog f6_recursion = true /\ known_f6 f6_recursion = true /\
  (exists ws, prog_run 50 f6_recursion (mkW [(s_c, [84%N])] [] [] 0%N) = FOk ws /\ length (w_trace ws) = 6) /\
  (exists l s, frun_program 200 (compile_prog f6_recursion) (mkW [(s_c, [84%N])] [] [] 0%N)
               = FStopped l (RError 5%N) s).
Proof. exact f6_refuted_recursion. Qed.

(* ---- calls in CONDITION position (`if f a b`, `elseif f`, `while f`, `not f`, f a user function) ----
   Model: DS.FlowFnC ([crun_program]: the machine of FlowFn.v + utils/condition.rs::eval_condition for
   a condition whose first token is a user function = utils/eval.rs::eval_with_instructions /
   eval_instructions, the nested mini-runner: the call is appended behind the program as an extra
   instruction, the callee's body runs under the nested loop until the line counter leaves the
   program; Error / Crash end the nested loop; a GoTo result does not touch the instruction's output
   variable, so a call `r = g x` made under the nested loop does not remove r at call time).
   Spec: DS.FlowFnCTree ([cprog_run]: a condition `f a b` runs the body of f like a call without
   output variable and is truthy iff the returned value is; the flag [em] = "under a
   condition-position call" marks the one place where the spec follows the implementation in the
   corner the property leaves open: `w3 := if em then w2 else clear_out out w2` in [xcall] — the
   output variable of a call made under a condition-position activation is not removed at call
   time, hence still holds its old value if the callee ends without `return`).

   C05_sim_cond: for EVERY well-formed program of the extended syntax outside KnownF6 (the
   reachability of [cknown_f6] counts condition-position calls) — calls in statement position and in
   condition position of if / elseif / while, under `not`, in main, inside functions, inside
   functions that are themselves evaluated in condition position, recursion through
   condition-position calls included — whatever the tree-walking interpreter computes, the flat
   machine computes on the compiled program for every sufficiently large fuel of the main loop (k)
   and of the condition evaluations (e): it runs past the last line in exactly that world, with
   the for-in stack, the function call stack and the scope stack empty.
   Proof (FlowFnCErase / FlowFnCRuns / FlowFnCSim / FlowFnCThms): the frame statement of C05_sim
   (site-based junk, for-in discipline) proved for both loops at once (mode flag), plus a frame
   statement for condition evaluation; static facts are inherited from the erased program (every
   non-base condition replaced by a base one: same command names, same lines). *)
Require Import DS.FlowFnC DS.FlowFnCTree DS.FlowFnCThms.
Theorem C05_sim_cond : forall p, tables_wf = true -> wf_cprog p = true -> cknown_f6 p = false ->
  forall n w w', cprog_run n p w = FOk w' ->
  exists fuel efuel f' g',
    (forall k e, fuel <= k -> efuel <= e -> crun_program k e (compile_cprog p) w = FDone (w', f', g')) /\
    f_forstk f' = [] /\ fs_stk g' = [] /\ fs_scopes g' = [].
Proof. exact cond_sim. Qed.
Print Assumptions C05_sim_cond.

(* Where the flag [em] of the spec matters (FlowFnCIdeal.v: [iprog_run] = the structured semantics
   WITHOUT the flag: every call with an output variable removes it at call time, as the main runner
   does).  C05_cond_em_scope: if no function that can run under a condition-position call contains
   a call with an output variable ([no_out_under], reachability counts condition-position calls),
   the spec with the flag IS the flag-free semantics; hence (C05_sim_cond_ideal) on those programs
   the flat machine simulates the flag-free semantics.  The flag is therefore confined to the
   output variables of calls made inside a condition-position activation. *)
Require Import DS.FlowFnCIdeal DS.FlowFnCIdealThms.
Theorem C05_cond_em_scope : forall p, no_out_under p = true -> forall n w, cprog_run n p w = iprog_run n p w.
Proof. exact em_scope. Qed.
Print Assumptions C05_cond_em_scope.
Theorem C05_sim_cond_ideal : forall p, tables_wf = true -> wf_cprog p = true -> cknown_f6 p = false ->
  no_out_under p = true ->
  forall n w w', iprog_run n p w = FOk w' ->
  exists fuel efuel f' g',
    (forall k e, fuel <= k -> efuel <= e -> crun_program k e (compile_cprog p) w = FDone (w', f', g')) /\
    f_forstk f' = [] /\ fs_stk g' = [] /\ fs_scopes g' = [].
Proof. exact cond_sim_ideal. Qed.
Print Assumptions C05_sim_cond_ideal.
(* ... and inside that region the flag is observable beyond [corner_prog] (value-less callees): on
   `fn g / emit in ${r} / return 1 / end ; fn f / r = g / return ${r} / end ; r = set old ; if f ...`
   (well-formed, outside KnownF6, corner_prog = false) g's body still sees r = old under the
   condition-position call of f (spec with flag = flat machine = real SDK: trace `in old`), while
   the flag-free semantics (and the same call in statement position) gives `in` with r removed.
   The property text does not say what the output variable holds DURING the call; reported. *)
Theorem C05_cond_em_witness :
  wf_cprog em_prog = true /\ cknown_f6 em_prog = false /\ corner_prog em_prog = false /\
  no_out_under em_prog = false /\
  exists ws wi ff sf,
    cprog_run 50 em_prog world0 = FOk ws /\ iprog_run 50 em_prog world0 = FOk wi /\
    crun_program 200 200 (compile_cprog em_prog) world0 = FDone (ws, ff, sf) /\
    w_trace ws = [[[102;105;110]; [49]]; [[84]]; [[105;110]; [111;108;100]]]%N /\
    w_trace wi = [[[102;105;110]; [49]]; [[84]]; [[105;110]; []]]%N.
Proof. exact em_witness. Qed.
Print Assumptions C05_cond_em_witness.
