(* C05 — functions: arguments, return values, early return and scoped isolation.
   Property theorems only; every proof is [exact <lemma>].

   Model: DS.FlowFn (flat machine: Flow.v + function/mod.rs + utils/scope.rs), tables
   DSG.GenFlowNames / DSG.GenFnNames regenerated from the Rust sources.
   Spec: DS.FlowFnTree (programs with function definitions, [compile_prog], [prog_run]; a call runs
   the body with fresh loop state and catches the return signal; <scope> functions run on a cleared
   variable map and give back the caller's map plus the output variable). *)
Require Import DS.Base DS.FlowTables DS.FlowTablesWf DS.FlowScan DS.Flow DS.FlowFn DS.FlowFnTree DS.FlowFnDom
  DS.FlowFnScan DS.FlowFnSim DS.FlowFnThms DS.FlowFnSites DS.FlowFnRec DS.FlowFnRecThms DS.FlowFnReach DS.FlowFnFinal.
Open Scope nat_scope.

(* the regenerated keyword tables are well-formed; the additional facts C05 uses (function table,
   spellings of function / end_function / return, allow_recursive = false) hold by computation *)
Theorem C05_tables : tables_wf = true /\ fn_tables_ok = true.
Proof. exact (conj gen_tables_wf fn_tables_wf). Qed.

(* the scan performed by `fn name` finds the function's own end over any well-nested body *)
Theorem C05_fn_end : forall (callable : str -> Prop) pre b c rest,
  pgb callable true b -> In c fn_closers ->
  (if DSG.GenFlowNames.gen_function_allow_recursive
   then find_commands gen_function_tables (pre ++ fcmds (gb b) ++ Some c :: rest) (length pre)
   else find_commands_nr gen_function_tables (pre ++ fcmds (gb b) ++ Some c :: rest) (length pre))
  = SOk [] (length pre + length (gb b)).
Proof. exact find_fn_end. Qed.

(* simulation (full statement of DESIGN §7 C05 for calls in statement position): for every
   well-formed program outside KnownF6 — any number of functions, scoped or not, nested and
   RECURSIVE calls (call-graph cycles), returns at any depth of if / while, repeated calls — whatever
   the tree-walking interpreter computes, the flat machine computes on the compiled program: it runs
   past the last line (never stuck, no Error / Crash / Panic) in exactly that world (emit trace,
   variables, arrays), with the for-in stack, the function call stack and the scope stack empty.
   Proof: frame statement with site-based junk (FlowFnSites.sites_unique: every stack entry for a
   given line carries the same block positions; junk if-entries have passed = true), the for-in
   stack discipline of KnownF6 (entries of outer activations belong to functions the current one
   cannot be reached from), completeness of the bounded reachability of [known_f6]
   (FlowFnReach.reach_complete).
   NOT covered by a theorem: calls in condition position (C05_cond; model FlowFnC.v, spec
   FlowFnCTree.v, correspondence run only). *)
Theorem C05_sim : forall p, tables_wf = true -> wf_prog p = true -> known_f6 p = false ->
  forall n w w', prog_run n p w = FOk w' ->
  exists fuel f' g', (forall k, fuel <= k -> frun_program k (compile_prog p) w = FDone (w', f', g')) /\
                     f_forstk f' = [] /\ fs_stk g' = [] /\ fs_scopes g' = [].
Proof. exact rec_sim. Qed.

(* the key fact behind it: a line is the end line or an else line of at most one block site *)
Theorem C05_sites_unique : forall p x y k,
  In x (prog_sites p) -> In y (prog_sites p) -> In k (keys x) -> In k (keys y) -> x = y.
Proof. exact sites_unique. Qed.

(* first proof (kept): the same conclusion for programs whose calls follow the definition order,
   by line regions instead of sites *)
Theorem C05_sim_ordered : forall p, tables_wf = true -> ordered_prog p = true ->
  forall n w w', prog_run n p w = FOk w' ->
  exists fuel f' g', (forall k, fuel <= k -> frun_program k (compile_prog p) w = FDone (w', f', g')) /\
                     f_forstk f' = [] /\ fs_stk g' = [] /\ fs_scopes g' = [].
Proof. exact fn_sim_ordered. Qed.

(* F6: the for-in iteration state is keyed by line, not by activation.  Two well-formed KnownF6
   programs on which the flat machine and the structured semantics differ: a loop left through
   return resumes where it stopped on the next call (x = f; y = f; z = f gives a, b, c instead of
   a, a, a) and a recursive re-entry steals the outer loop's entry (the run ends in the error
   "end for/in ... not currently running part of a for/in invocation flow") *)
Theorem C05_F6_refuted_return :
  wf_prog f6_return = true /\ known_f6 f6_return = true /\
  exists ws wf ff sf, prog_run 50 f6_return world0 = FOk ws /\
                      frun_program 200 (compile_prog f6_return) world0 = FDone (wf, ff, sf) /\
                      vget [117%N] ws = Some [97%N] /\ vget [118%N] ws = Some [97%N] /\ vget [119%N] ws = Some [97%N] /\
                      vget [118%N] wf = Some [98%N] /\ vget [119%N] wf = Some [99%N].
Proof. exact f6_refuted_return. Qed.
Theorem C05_F6_refuted_recursion :
  wf_prog f6_recursion = true /\ known_f6 f6_recursion = true /\
  (exists ws, prog_run 50 f6_recursion (mkW [(s_c, [84%N])] [] [] 0%N) = FOk ws /\ length (w_trace ws) = 6) /\
  (exists l s, frun_program 200 (compile_prog f6_recursion) (mkW [(s_c, [84%N])] [] [] 0%N)
               = FStopped l (RError 5%N) s).
Proof. exact f6_refuted_recursion. Qed.
