(* C05 — functions: arguments, return values, early return and scoped isolation.
   Property theorems only; every proof is [exact <lemma>]. *)
Require Import DS.Base DS.FlowTables DS.FlowTablesWf.

(* the keyword tables regenerated from the Rust sources are well-formed (shared with C04) *)
Theorem C05_tables : tables_wf = true.
Proof. exact gen_tables_wf. Qed.
