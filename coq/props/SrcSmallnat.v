(* SrcSmallnat — the small native commands the flow / wrapped-call models pass through ARE the current source.
   gen_end_get_command, gen_end_run, gen_goto_run, gen_not_run, gen_noop_run, gen_eval, gen_eval_with_error, gen_eval_run are
   regenerated on every run from duckscript_sdk/src/sdk/std/{flowcontrol/end, flowcontrol/goto, not, noop, eval}/mod.rs and
   fn eval / eval_with_error of duckscript_sdk/src/utils/eval.rs by the translator lib/rs2v.py (class FnSn, client
   lib/gen/smallnat_gen.py), one flag per function (gen_end_get_command calls GenFlowifFn.gen_get_line_key: its theorems carry
   that flag too).  The hand models: Flow.step_end (the machine of C04_sim / C04_program), FlowFn.step_end_fn (C05_sim,
   C05_sim_cond), and the command-level functions goto_cmd / not_cmd / noop_cmd / eval_cmd of theories/SmallnatGenTie.v, which
   are linked to the models that take commands as a parameter or fold them into another layer: Runner.exec (C03),
   Flow.eval_cond (CNot) and FlowFnC.ceval (FCNot) (C04 / C05), EvalSer.eval_parse / eval_call (C09).
   Proofs: theories/SmallnatGenTie.v, theories/SmallnatLink.v.
   What the generator configuration supplies (typed view FlowifGenLib.gis, the callees run_instruction / eval_condition /
   parse as function parameters, Result -> option, error-text -> code table): lib/gen/smallnat_gen.py.
   Property theorems only. *)
From stdpp Require Import gmap.
Require Import DS.Base DS.Cond DS.FlowTables DS.FlowScan DS.Flow DS.FlowFn DS.FlowFnC DS.FlowifGenLib DS.FlowifGenTie.
Require Import DS.SmallnatGenLib DS.SmallnatGenTie DS.SmallnatLink.
Require DS.Runner DS.EvalSer DS.Parser DS.Expansion.
Require Import DSG.GenFlowNames DSG.GenFlowifFn DSG.GenSmallnatFn.
Open Scope nat_scope.

(* ---- end ---------------------------------------------------------------------------------------------------------------- *)
(* end::get_command = the lookup of the line in the model's end table (key `lcn::line`; only reads) *)
Theorem Src_smallnat_end_get : gen_get_line_key_understood = true -> gen_end_get_command_understood = true ->
  forall (X : Type) (x : X) lcn line f, gen_end_get_command line (emb_gen x lcn f) = aget Nat.eqb line (f_end f).
Proof. exact gen_end_get_command_eq. Qed.
Print Assumptions Src_smallnat_end_get.

(* end::CommandImpl::run = Flow.step_end: nothing stored -> Continue; otherwise the stored command is run, without arguments,
   at this line — for every run_instruction [ri] that does on translation states what the machine does on model states *)
Theorem Src_smallnat_step_end :
  gen_get_line_key_understood = true -> gen_end_get_command_understood = true -> gen_end_run_understood = true ->
  forall lcn ri line s, ri_sim lcn ri ->
    gen_end_run ri line (emb lcn s) = (fst (step_end line s), emb lcn (snd (step_end line s))).
Proof. exact gen_end_run_eq. Qed.
Print Assumptions Src_smallnat_step_end.

(* ... = FlowFn.step_end_fn (the function end command among the stored names) *)
Theorem Src_smallnat_step_end_fn :
  gen_get_line_key_understood = true -> gen_end_get_command_understood = true -> gen_end_run_understood = true ->
  forall lcn ri line s, ri_sim_fn lcn ri ->
    gen_end_run ri line (embC lcn s) = (fst (step_end_fn line s), embC lcn (snd (step_end_fn line s))).
Proof. exact gen_end_run_fn_eq. Qed.
Print Assumptions Src_smallnat_step_end_fn.

(* what ri_sim / ri_sim_fn ask of run_instruction: the machine's OWN step of the instruction `<stored name>` (hand model) *)
Theorem Src_smallnat_end_dispatch_step : forall P line name s, is_end_kind (classify name) = true ->
  end_dispatch line name s = step P line (mkI (Some name) ANone) s.
Proof. exact end_dispatch_step. Qed.
Print Assumptions Src_smallnat_end_dispatch_step.

Theorem Src_smallnat_end_dispatch_fn_step : forall P line name s, is_end_kind_fn (classify_fn name) = true ->
  end_dispatch_fn line name s = fstep P line (mkFI (Some name) (FBase ANone)) s.
Proof. exact end_dispatch_fn_step. Qed.
Print Assumptions Src_smallnat_end_dispatch_fn_step.

(* ---- goto --------------------------------------------------------------------------------------------------------------- *)
Theorem Src_smallnat_goto : gen_goto_run_understood = true -> forall args, gen_goto_run args = goto_cmd args.
Proof. exact gen_goto_run_eq. Qed.
Print Assumptions Src_smallnat_goto.

(* goto jumps exactly when it has ONE argument that begins with ':' — to that LABEL, without output *)
Theorem Src_smallnat_goto_jump : gen_goto_run_understood = true -> forall args o g,
  gen_goto_run args = SGoto o g <-> exists l, args = [l] /\ sn_starts_with s_colon l = true /\ o = None /\ g = SLabel l.
Proof. intros U args o g. rewrite (gen_goto_run_eq U). apply goto_cmd_jump. Qed.
Print Assumptions Src_smallnat_goto_jump.

(* no-panic content (C07): `context.arguments[0]` of goto is behind its is_empty test *)
Theorem Src_smallnat_goto_no_panic : gen_goto_run_understood = true -> forall args, gen_goto_run args <> SPanic.
Proof. intros U args. rewrite (gen_goto_run_eq U). apply goto_cmd_no_panic. Qed.
Print Assumptions Src_smallnat_goto_no_panic.

(* the runner of C03 with goto in its command table (hand-model link; the label lookup is the runner's) *)
Theorem Src_smallnat_goto_exec : forall cstate exists_cmd cmd msg prog lt c i s name l,
  is_pure_cmd cstate cmd msg name goto_cmd ->
  prog !! Runner.pc c = Some i -> Runner.i_type i = Runner.IScript s -> Runner.s_cmd s = Some name ->
  exists_cmd (Runner.cst (Runner.wd c)) name = true ->
  Runner.s_args s = [l] -> sn_starts_with s_colon l = true ->
  Runner.exec cstate exists_cmd cmd prog lt c
  = match lt !! l with
    | Some n => inl (Runner.Config n (Runner.update_output (Runner.wd c) (Runner.s_out s) None) (S (Runner.polls c))
                       (Runner.trace c ++ [Runner.Event (Runner.pc c) [Runner.Call name (Runner.Inv [l] (Runner.s_out s) (Runner.pc c))]]))
    | None => inr (Runner.FErr (Runner.RLabel l) (Runner.i_meta i),
                   Runner.trace c ++ [Runner.Event (Runner.pc c) [Runner.Call name (Runner.Inv [l] (Runner.s_out s) (Runner.pc c))]])
    end.
Proof. exact goto_exec. Qed.
Print Assumptions Src_smallnat_goto_exec.

(* ---- not ---------------------------------------------------------------------------------------------------------------- *)
Theorem Src_smallnat_not : gen_not_run_understood = true ->
  forall (X : Type) evc args (st : gis X), gen_not_run evc args st = not_cmd evc args st.
Proof. exact gen_not_run_eq. Qed.
Print Assumptions Src_smallnat_not.

(* read back by a condition position (is_true of the output), `not <c>` is the CNot arm of Flow.eval_cond (C04) ... *)
Theorem Src_smallnat_not_cnot : gen_not_run_understood = true -> forall lcn c a args w f,
  cond_outcome (gen_not_run (evc_base c) (a :: args) (emb lcn (w, f)))
  = Some (fst (eval_cond (CNot c) w), emb lcn (snd (eval_cond (CNot c) w), f)).
Proof. intros U lcn c a args w f. rewrite (gen_not_run_eq U). apply not_cmd_cnot_outcome. Qed.
Print Assumptions Src_smallnat_not_cnot.

(* ... and the FCNot arm of FlowFnC.ceval (C05_sim_cond): the negation, errors passed through as errors *)
Theorem Src_smallnat_not_fcnot : gen_not_run_understood = true -> forall lcn k P c evc a args s,
  evc_sim lcn (ceval k P) c evc ->
  cond_outcome (gen_not_run evc (a :: args) (embC lcn s))
  = option_map (fun p => (fst p, embC lcn (snd p))) (ceval (S k) P (FCNot c) s).
Proof. intros U lcn k P c evc a args s H. rewrite (gen_not_run_eq U). apply not_cmd_ceval, H. Qed.
Print Assumptions Src_smallnat_not_fcnot.

(* no-panic content (C07): not never indexes its arguments; without arguments it is an Error *)
Theorem Src_smallnat_not_no_panic : gen_not_run_understood = true ->
  forall (X : Type) evc args (st : gis X), fst (gen_not_run evc args st) <> SPanic.
Proof.
  intros U X evc args st. rewrite (gen_not_run_eq U). unfold not_cmd.
  destruct args; [discriminate|]. destruct (evc _ st) as [[b|] st']; discriminate.
Qed.
Print Assumptions Src_smallnat_not_no_panic.

(* ---- noop --------------------------------------------------------------------------------------------------------------- *)
Theorem Src_smallnat_noop : gen_noop_run_understood = true -> gen_noop_run = SContinue None.
Proof. exact gen_noop_run_eq. Qed.
Print Assumptions Src_smallnat_noop.

(* ---- eval --------------------------------------------------------------------------------------------------------------- *)
(* eval::CommandImpl::run = eval_with_error = eval_cmd: no arguments -> Continue(None); a parse error -> Error; otherwise
   the ONE parsed instruction is run at line 0 and a Crash becomes an Error *)
Theorem Src_smallnat_eval :
  gen_eval_understood = true -> gen_eval_with_error_understood = true -> gen_eval_run_understood = true ->
  forall (X I : Type) (parse : list str -> option I) ri args (st : gis X),
    gen_eval_run parse ri args st = eval_cmd parse ri args st.
Proof. exact gen_eval_run_eq. Qed.
Print Assumptions Src_smallnat_eval.

(* with utils::eval::parse as the model has it (tie "eval"), the instruction run is the one EvalSer.eval_parse gives for
   ALL the arguments (none is dropped) ... *)
Theorem Src_smallnat_eval_parsed :
  gen_eval_understood = true -> gen_eval_with_error_understood = true -> gen_eval_run_understood = true ->
  forall (X : Type) ri a args i (st : gis X), EvalSer.eval_parse (a :: args) = EvalSer.ParsedOk i ->
    gen_eval_run parse_of ri (a :: args) st = (crash_to_error (fst (ri i 0 st)), snd (ri i 0 st)).
Proof. intros U1 U2 U3 X ri a args i st H. rewrite (gen_eval_run_eq U1 U2 U3). apply eval_cmd_parsed, H. Qed.
Print Assumptions Src_smallnat_eval_parsed.

(* ... i.e. the one the invocation EvalSer.eval_call describes (C09_roundtrip) is made from (hand-model link) *)
Theorem Src_smallnat_eval_call : forall variables args label output command bound,
  EvalSer.eval_call variables args = EvalSer.Call label output command bound ->
  exists raw, parse_of args = Some (Parser.IScript label output (Some command) raw)
              /\ bound = Expansion.bind_command_arguments variables raw.
Proof. exact eval_cmd_call. Qed.
Print Assumptions Src_smallnat_eval_call.

(* no-panic content (C07): eval itself never panics (its `instructions[0]` is in fn parse: C09_ix_parse_total) *)
Theorem Src_smallnat_eval_no_panic :
  gen_eval_understood = true -> gen_eval_with_error_understood = true -> gen_eval_run_understood = true ->
  forall (X I : Type) (parse : list str -> option I) ri args (st : gis X),
    (forall i n s, fst (ri i n s) <> SPanic) -> fst (gen_eval_run parse ri args st) <> SPanic.
Proof. intros U1 U2 U3 X I parse ri args st H. rewrite (gen_eval_run_eq U1 U2 U3). apply eval_cmd_no_panic, H. Qed.
Print Assumptions Src_smallnat_eval_no_panic.
