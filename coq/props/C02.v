(* C02 — binding of variables is verbatim, single-pass and never changes the argument count.
   Property theorems only; every proof is [exact <lemma>].
   Model: Expansion.v (expand_by_wrapper, bind_command_arguments) over Parser.v (reparse_arguments);
   specification: ExpansionSpec.v (templates, render, denote, words, known-finding classes). *)
Require Import DS.Base DS.Parser DS.Expansion DS.ExpansionSpec DS.ExpansionFacts.

(* every well-formed template, EVERY environment (values are arbitrary strings, never re-scanned):
   the argument becomes the concatenation of the denotations; None (bound as one empty argument)
   when that text is empty *)
Theorem C02_single : forall t e, wf_tmpl t = true ->
  expand_by_wrapper (render_tmpl t) e = of_text (denote_tmpl e t).
Proof. exact expand_tmpl. Qed.

(* %{name} is the re-parse of the value (nothing for an empty or undefined variable) *)
Theorem C02_spread : forall n e, name_ok n = true ->
  expand_by_wrapper (render_spread n) e = spread_of (lookup_or_empty e n).
Proof. exact expand_spread. Qed.

(* outside KF-C02-1 (a word of the value begins with a double quote) the re-parse is the list of
   space-separated words; #, back-slashes, $, %, braces, TAB, CR, LF are data *)
Theorem C02_words : forall v, known_spread_value v = false ->
  reparse_arguments v = POk (opt_list (words v)).
Proof. exact reparse_words. Qed.
Theorem C02_spread_words : forall n e, name_ok n = true ->
  known_spread_value (lookup_or_empty e n) = false ->
  expand_by_wrapper (render_spread n) e = Multi (words (lookup_or_empty e n)).
Proof. exact expand_spread_words. Qed.

(* whole argument lists, every position: the received arguments are the denotations, in order *)
Theorem C02_bind : forall args e, forallb wf_arg args = true ->
  existsb (known_arg e) args = false ->
  bind_args e (map render_arg args) = denote_args e args.
Proof. exact bind_spec. Qed.
(* exactly one received argument per non-spread written argument (and the number of words per spread) *)
Theorem C02_count : forall args e, forallb wf_arg args = true ->
  existsb (known_arg e) args = false ->
  length (bind_args e (map render_arg args))
  = fold_right (fun a k => (arg_count e a + k)%nat) 0%nat args.
Proof. exact bind_count. Qed.
(* without spread arguments no hypothesis on the values is needed at all *)
Theorem C02_count_templates : forall ts e, forallb wf_tmpl ts = true ->
  bind_args e (map render_tmpl ts) = map (denote_tmpl e) ts.
Proof. exact bind_count_templates. Qed.

(* known-finding classes: the literal statement is false of the faithful model *)
Theorem C02_KF1_quote_refuted :
  name_ok s_v = true /\
  expand_by_wrapper (render_spread s_v) (env1 w_quote) = Multi [[97]; [98; 32; 99]] /\
  words w_quote = [[97]; [34; 98]; [99; 34]].
Proof. exact spread_quote_refuted. Qed.
Theorem C02_KF1_open_quote_refuted :
  expand_by_wrapper (render_spread s_v) (env1 w_quote_open) = ENone /\
  bind_args (env1 w_quote_open) [render_spread s_v] = [[]] /\
  words w_quote_open = [[97]; [34; 98]].
Proof. exact spread_quote_open_refuted. Qed.
(* former KF-C02-2, repaired: a value containing # is in the domain of C02_words; a#b c spreads to [a#b; c] *)
Theorem C02_hash_example :
  known_spread_value w_hash = false /\
  expand_by_wrapper (render_spread s_v) (env1 w_hash) = Multi [[97; 35; 98]; [99]] /\
  words w_hash = [[97; 35; 98]; [99]].
Proof. exact spread_hash_example. Qed.
Theorem C02_KF3_esc_pct_refuted :
  forallb wf_piece_literal t_esc_pct = true /\ known_esc_tmpl t_esc_pct = true /\
  expand_by_wrapper (render_tmpl t_esc_pct) env_empty = Multi [[120]; [121; 36; 123; 97; 37; 98; 125]] /\
  of_text (denote_tmpl env_empty t_esc_pct) = Single [120; 32; 121; 36; 123; 97; 37; 98; 125].
Proof. exact esc_pct_refuted. Qed.
Theorem C02_KF3_esc_bs_refuted :
  forallb wf_piece_literal t_esc_bs = true /\ known_esc_tmpl t_esc_bs = true /\
  expand_by_wrapper (render_tmpl t_esc_bs) env_empty = Single [36; 123; 97; 36; 98; 125] /\
  of_text (denote_tmpl env_empty t_esc_bs) = Single [36; 123; 97; 92; 36; 98; 125].
Proof. exact esc_bs_refuted. Qed.

(* non-vacuity: a value that looks like syntax is inserted verbatim *)
Theorem C02_nonvacuous :
  wf_tmpl [Lit [97]; Var s_v; Esc s_v] = true /\
  expand_by_wrapper (render_tmpl [Lit [97]; Var s_v; Esc s_v]) (env1 w_hostile)
  = Single ([97] ++ w_hostile ++ [36; 123; 118; 125]).
Proof. exact verbatim_example. Qed.

(* ---- index-faithful model (ExpansionIx.v): expand_by_wrapper has no partial operation of its own
   (char iterator, pushes, prefix_index only 0/1); the index arithmetic is in the re-parse of a spread
   value, modelled by the index-faithful parser (vector, usize indices, explicit Panic) ------------- *)
Require Import DS.ParserIx DS.ExpansionIx DS.ExpansionIxProof.

(* every written argument (any string over all scalar values), every environment: no panic *)
Theorem C02_ix_total : forall value variables, expand_by_wrapper_ix value variables <> XPanic.
Proof. exact expand_ix_total. Qed.
(* and the index model equals the suffix model, so C02_single / _spread / _words / ... transfer *)
Theorem C02_ix_refines : forall value variables,
  expand_by_wrapper_ix value variables = XOk (expand_by_wrapper value variables).
Proof. exact expand_ix_refines. Qed.
(* bind_command_arguments over it: props/C02ix.v *)
