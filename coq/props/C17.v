(* C17 — Encodings round-trip.  Property theorems only. *)
Require Import DS.Base DS.Utf8 DS.Strings DS.Codec DS.CodecProof DS.Json DS.JsonProof.

(* base64_decode (base64_encode bytes) = bytes, for every byte string (any length) *)
Theorem C17_b64 : forall bs, bytes bs -> b64_decode (b64_encode bs) = Some bs.
Proof. exact b64_roundtrip. Qed.

(* bytes_to_string (string_to_bytes text) = text, for every text of Unicode scalar values
   (including NUL and control characters) *)
Theorem C17_utf8 : forall s, forallb scalar s = true -> utf8_decode (utf8_encode s) = Some s.
Proof. exact utf8_roundtrip. Qed.

(* the bytes of a text are bytes, so the two round trips compose *)
Theorem C17_utf8_bytes : forall s, forallb scalar s = true -> bytes (utf8_encode s).
Proof. exact utf8_encode_bytes. Qed.
Theorem C17_text_b64 : forall s, forallb scalar s = true ->
  match b64_decode (b64_encode (utf8_encode s)) with
  | Some bs => utf8_decode bs = Some s
  | None => False
  end.
Proof.
  intros s H. rewrite (b64_roundtrip _ (utf8_encode_bytes s H)). exact (utf8_roundtrip s H).
Qed.

(* hex_decode (hex_encode n) = n for every n in the u64 range *)
Theorem C17_hex : forall n, (Z.of_N n <= u64_max)%Z -> hex_decode (hex_encode n) = Some n.
Proof. exact hex_roundtrip. Qed.

(* ... also through the two commands: decimal text -> hex text -> the same decimal text *)
Theorem C17_hex_cmds : forall n rest rest', (Z.of_N n <= u64_max)%Z ->
  cmd_hex_encode (show_N n :: rest) = RVal (hex_encode n) /\
  cmd_hex_decode (hex_encode n :: rest') = RVal (show_N n).
Proof. exact hex_cmd_roundtrip. Qed.

(* non-vacuity *)
Example C17_nonvacuous :
  b64_encode (utf8_encode [104; 233; 128512]) = [97;77;79;112;56;74;43;89;103;65;61;61] /\
  hex_encode 255 = [48;120;102;102].
Proof. split; vm_compute; reflexivity. Qed.

(* ---- JSON: json_parse --collection followed by json_encode --collection --------------------- *)
(* For every parsed document j (unique keys per object; no string/number leaf is literally one of
   the allocator's handle names) and every handle store built by put_handle: create_structure
   followed by encode_from_state gives exactly the documented normalisation of j (scalars become
   strings, nulls are dropped, a top-level null gives no value) and never runs out of fuel. *)
Theorem C17_json : forall j st, store_wf st -> json_dom j ->
  roundtrip (fuel_for j) j st = Some (normalise j).
Proof. exact json_roundtrip. Qed.

(* the same, spelled out on the two functions *)
Theorem C17_json_ex : forall j st, store_wf st -> json_dom j ->
  let (o, st') := create_structure j st in
  match o with
  | Some v => exists fuel, encode_from_state fuel (cells st') v = normalise j
  | None => normalise j = None
  end.
Proof. exact json_roundtrip_ex. Qed.

(* any recursion budget of at least two frames per nesting level is enough *)
Theorem C17_json_fuel : forall j st fuel, store_wf st -> json_dom j -> (fuel_for j <= fuel)%nat ->
  roundtrip fuel j st = Some (normalise j).
Proof. exact encode_fuel_enough. Qed.

(* from a fresh context (what the correspondence run executes) *)
Theorem C17_json_fresh : forall j, json_dom j -> roundtrip_model j = Some (normalise j).
Proof. exact roundtrip_model_spec. Qed.

(* the store stays well formed and only grows, so the theorem applies to the next document too *)
Theorem C17_json_store : forall j st, store_wf st -> json_dom j ->
  store_wf (snd (create_structure j st)) /\ extends st (snd (create_structure j st)).
Proof. exact create_structure_wf. Qed.

(* non-vacuity: {"a":[1,null,{"b":null,"c":true},[]],"n":null,"s":"x"} is in the domain and comes back
   as {"a":["1",{"c":"true"},[]],"s":"x"}; a top-level null gives no value *)
Example C17_json_nonvacuous :
  let j := JObj [([97], JArr [JNum [49]; JNull; JObj [([98], JNull); ([99], JBool true)]; JArr []]);
                 ([110], JNull); ([115], JStr [120])] in
  json_wfb j = true /\ no_handle_leafb j = true /\
  roundtrip_model j = Some (Some (JObj [([97], JArr [JStr [49]; JObj [([99], JStr [116; 114; 117; 101])]; JArr []]);
                                       ([115], JStr [120])])) /\
  roundtrip_model JNull = Some None /\
  no_handle_leafb (JArr [JStr (hname 0)]) = false.
Proof. vm_compute. repeat split. Qed.
