(* C17 — Encodings round-trip.  Property theorems only. *)
Require Import DS.Base DS.Utf8 DS.Strings DS.Codec DS.CodecProof.

(* base64_decode (base64_encode bytes) = bytes, for every byte string (any length) *)
Theorem C17_b64 : forall bs, bytes bs -> b64_decode (b64_encode bs) = Some bs.
Proof. exact b64_roundtrip. Qed.

(* bytes_to_string (string_to_bytes text) = text, for every text of Unicode scalar values
   (including NUL and control characters) *)
Theorem C17_utf8 : forall s, forallb scalar s = true -> utf8_decode (utf8_encode s) = Some s.
Proof. exact utf8_roundtrip. Qed.

(* the bytes of a text are bytes, so the two round trips compose *)
Theorem C17_utf8_bytes : forall s, forallb scalar s = true -> bytes (utf8_encode s).
Proof. exact utf8_encode_bytes. Qed.
Theorem C17_text_b64 : forall s, forallb scalar s = true ->
  match b64_decode (b64_encode (utf8_encode s)) with
  | Some bs => utf8_decode bs = Some s
  | None => False
  end.
Proof.
  intros s H. rewrite (b64_roundtrip _ (utf8_encode_bytes s H)). exact (utf8_roundtrip s H).
Qed.

(* hex_decode (hex_encode n) = n for every n in the u64 range *)
Theorem C17_hex : forall n, (Z.of_N n <= u64_max)%Z -> hex_decode (hex_encode n) = Some n.
Proof. exact hex_roundtrip. Qed.

(* ... also through the two commands: decimal text -> hex text -> the same decimal text *)
Theorem C17_hex_cmds : forall n rest rest', (Z.of_N n <= u64_max)%Z ->
  cmd_hex_encode (show_N n :: rest) = RVal (hex_encode n) /\
  cmd_hex_decode (hex_encode n :: rest') = RVal (show_N n).
Proof. exact hex_cmd_roundtrip. Qed.

(* non-vacuity *)
Example C17_nonvacuous :
  b64_encode (utf8_encode [104; 233; 128512]) = [97;77;79;112;56;74;43;89;103;65;61;61] /\
  hex_encode 255 = [48;120;102;102].
Proof. split; vm_compute; reflexivity. Qed.
