(* C17 — Encodings round-trip.  Property theorems only. *)
Require Import DS.Base DS.Utf8 DS.Strings DS.Codec DS.CodecProof DS.Json DS.JsonProof DS.CodecProps DS.CodecPropsProof.

(* base64_decode (base64_encode bytes) = bytes, for every byte string (any length) *)
Theorem C17_b64 : forall bs, bytes bs -> b64_decode (b64_encode bs) = Some bs.
Proof. exact b64_roundtrip. Qed.

(* bytes_to_string (string_to_bytes text) = text, for every text of Unicode scalar values
   (including NUL and control characters) *)
Theorem C17_utf8 : forall s, forallb scalar s = true -> utf8_decode (utf8_encode s) = Some s.
Proof. exact utf8_roundtrip. Qed.

(* the bytes of a text are bytes, so the two round trips compose *)
Theorem C17_utf8_bytes : forall s, forallb scalar s = true -> bytes (utf8_encode s).
Proof. exact utf8_encode_bytes. Qed.
Theorem C17_text_b64 : forall s, forallb scalar s = true ->
  match b64_decode (b64_encode (utf8_encode s)) with
  | Some bs => utf8_decode bs = Some s
  | None => False
  end.
Proof.
  intros s H. rewrite (b64_roundtrip _ (utf8_encode_bytes s H)). exact (utf8_roundtrip s H).
Qed.

(* hex_decode (hex_encode n) = n for every n in the u64 range *)
Theorem C17_hex : forall n, (Z.of_N n <= u64_max)%Z -> hex_decode (hex_encode n) = Some n.
Proof. exact hex_roundtrip. Qed.

(* ... also through the two commands: decimal text -> hex text -> the same decimal text *)
Theorem C17_hex_cmds : forall n rest rest', (Z.of_N n <= u64_max)%Z ->
  cmd_hex_encode (show_N n :: rest) = RVal (hex_encode n) /\
  cmd_hex_decode (hex_encode n :: rest') = RVal (show_N n).
Proof. exact hex_cmd_roundtrip. Qed.

(* non-vacuity *)
Example C17_nonvacuous :
  b64_encode (utf8_encode [104; 233; 128512]) = [97;77;79;112;56;74;43;89;103;65;61;61] /\
  hex_encode 255 = [48;120;102;102].
Proof. split; vm_compute; reflexivity. Qed.

(* ---- JSON: json_parse --collection followed by json_encode --collection --------------------- *)
(* For every parsed document j (unique keys per object; no string/number leaf is literally one of
   the allocator's handle names) and every handle store built by put_handle: create_structure
   followed by encode_from_state gives exactly the documented normalisation of j (scalars become
   strings, nulls are dropped, a top-level null gives no value) and never runs out of fuel. *)
Theorem C17_json : forall j st, store_wf st -> json_dom j ->
  roundtrip (fuel_for j) j st = Some (normalise j).
Proof. exact json_roundtrip. Qed.

(* the same, spelled out on the two functions *)
Theorem C17_json_ex : forall j st, store_wf st -> json_dom j ->
  let (o, st') := create_structure j st in
  match o with
  | Some v => exists fuel, encode_from_state fuel (cells st') v = normalise j
  | None => normalise j = None
  end.
Proof. exact json_roundtrip_ex. Qed.

(* any recursion budget of at least two frames per nesting level is enough *)
Theorem C17_json_fuel : forall j st fuel, store_wf st -> json_dom j -> (fuel_for j <= fuel)%nat ->
  roundtrip fuel j st = Some (normalise j).
Proof. exact encode_fuel_enough. Qed.

(* from a fresh context (what the correspondence run executes) *)
Theorem C17_json_fresh : forall j, json_dom j -> roundtrip_model j = Some (normalise j).
Proof. exact roundtrip_model_spec. Qed.

(* the store stays well formed and only grows, so the theorem applies to the next document too *)
Theorem C17_json_store : forall j st, store_wf st -> json_dom j ->
  store_wf (snd (create_structure j st)) /\ extends st (snd (create_structure j st)).
Proof. exact create_structure_wf. Qed.

(* non-vacuity: {"a":[1,null,{"b":null,"c":true},[]],"n":null,"s":"x"} is in the domain and comes back
   as {"a":["1",{"c":"true"},[]],"s":"x"}; a top-level null gives no value *)
Example C17_json_nonvacuous :
  let j := JObj [([97], JArr [JNum [49]; JNull; JObj [([98], JNull); ([99], JBool true)]; JArr []]);
                 ([110], JNull); ([115], JStr [120])] in
  json_wfb j = true /\ no_handle_leafb j = true /\
  roundtrip_model j = Some (Some (JObj [([97], JArr [JStr [49]; JObj [([99], JStr [116; 114; 117; 101])]; JArr []]);
                                       ([115], JStr [120])])) /\
  roundtrip_model JNull = Some None /\
  no_handle_leafb (JArr [JStr (hname 0)]) = false.
Proof. vm_compute. repeat split. Qed.

(* ---- properties format: map_to_properties followed by map_load_properties ---------------------- *)
(* Models (CodecProps.v): the java-properties 2.0.0 writer (write_escaped, the windows-1252 EncodingWriter with
   its Vec<u8> buffer and unpadded \u escapes) and reader (windows-1252 decoding of the text's UTF-8 bytes,
   NaturalLines, LogicalLines, LINE_RE, unescape) and the glue of the two commands (prefix, str::from_utf8,
   trim_end_matches, insertion into the map).  [m] is the map in its HashMap iteration order, so "forall m"
   covers every order.

   The domain [representable (k, v)] is exact per pair and has four parts, all of them DEFECTS of the code (the
   format itself can carry every string: empty keys, leading blanks, '=', ':', '#', line breaks are all escaped):
     char_ok      excludes the characters written as a \u escape of fewer or more than four digits: control
                  characters other than TAB LF FF CR, and characters that windows-1252 cannot encode outside
                  U+1000..U+FFFF                                                              (known finding F18)
     utf8_ok      the windows-1252 bytes of the key / of the value must happen to be valid UTF-8, because
                  map_to_properties reads the writer's output with str::from_utf8            (known finding F18)
     pair_clean   no \u escape may straddle the end of the writer's buffer (256 bytes, tripled when full): the
                  crate drops the rest of such an escape         (candidate finding, C17_properties_truncation_refuted)
     no BOM       the written bytes of the key must not start with EF BB BF (the key starts with "ï»¿"): when that key
                  is written first the text starts with U+FEFF, and the reader's decoder (Encoding::new_decoder, with
                  BOM sniffing) then reads the whole text as UTF-8 and drops the mark
                                                                        (candidate finding, C17_properties_bom_refuted) *)

(* a map written with map_to_properties and read back with map_load_properties has the same keys and values:
   all maps, all sizes, all iteration orders, all strings of the domain *)
Theorem C17_properties : forall m,
  Forall (fun kv => representable kv = true) m -> NoDup (map fst m) -> pp_roundtrip [] [] m = POk m.
Proof. exact properties_roundtrip_plain. Qed.

(* the same with --prefix p on the writing and --prefix q on the reading side: the keys come back as q.p.k *)
Theorem C17_properties_prefix : forall p q m,
  Forall (fun kv => representable kv = true) (pp_prefix_map p m) -> NoDup (map fst m) ->
  pp_roundtrip p q m = POk (pp_prefix_map q (pp_prefix_map p m)).
Proof. exact properties_roundtrip. Qed.

(* on the domain the bytes written are the lines of the pairs, one after the other, nothing cut: the text depends on
   the iteration order only through the order of its lines *)
Theorem C17_properties_writer : forall m,
  Forall (fun kv => pair_clean (fst kv) (snd kv) = true) m -> pp_write m = POk (concat (map line_bytes m)).
Proof. exact pp_write_clean. Qed.

(* the writer's loop never runs out of the model's fuel on clean input, from any buffer state *)
Theorem C17_properties_fuel : forall data cap c', 0 < cap -> ew_clean data 0 cap = (true, c') ->
  pp_ew_write data cap = POk (wire_bytes data, c').
Proof. exact pp_ew_write_clean. Qed.

(* the domain is not vacuous: every ASCII text without control characters other than TAB LF FF CR, of any length,
   is in it; and a pair whose written form is at most 256 bytes each is never cut *)
Theorem C17_properties_ascii : forall k v,
  forallb ascii_ok k = true -> forallb ascii_ok v = true -> representable (k, v) = true.
Proof. exact representable_ascii. Qed.
Theorem C17_properties_short : forall k v,
  nlen (wire_bytes (pp_write_escaped k)) <= 256 -> nlen (wire_bytes (pp_write_escaped v)) <= 256 -> pair_clean k v = true.
Proof. exact pair_clean_short. Qed.

(* boolean and propositional duplicate-freeness agree (the check uses the boolean) *)
Theorem C17_properties_nodup : forall l, str_nodup l = true <-> NoDup l.
Proof. exact str_nodup_spec. Qed.

(* members of the domain: blanks, separators, comment signs, backslashes, line breaks, an empty key, CJK (written as
   日), and "Ã©" whose windows-1252 bytes C3 A9 happen to be UTF-8 *)
Example C17_properties_nonvacuous :
  representable ([97; 32; 98], [32; 120; 92; 121; 10; 26085]) = true /\
  representable ([], []) = true /\ representable ([35; 33; 58; 61], [9; 13; 12; 127]) = true /\
  representable ([107], [195; 169]) = true /\
  pp_roundtrip [112] [113] [([97; 32; 98], [32; 120; 92; 121; 10; 26085]); ([], [])] =
    POk [([113; 46; 112; 46; 97; 32; 98], [32; 120; 92; 121; 10; 26085]); ([113; 46; 112; 46], [])].
Proof. vm_compute. repeat split. Qed.

(* known finding F18, inside the model: {k: "é"} is not UTF-8 after writing; {k: U+0001} is written as \u1 and
   rejected by the reader; {k: U+1F600} is written as ὠ0 and comes back as U+1F60 followed by '0' *)
Theorem C17_properties_F18_witnesses :
  representable ([107], [233]) = false /\ pp_roundtrip [] [] [([107], [233])] = PErr pe_utf8 0 /\
  representable ([107], [1]) = false /\ pp_roundtrip [] [] [([107], [1])] = PErr pe_digits 1 /\
  representable ([107], [128512]) = false /\ pp_roundtrip [] [] [([107], [128512])] = POk [([107], [8032; 48])].
Proof. vm_compute. repeat split. Qed.
Theorem C17_properties_F18_refuted : exists m, NoDup (map fst m) /\ pp_roundtrip [] [] m <> POk m.
Proof.
  exists [([107], [128512])]. split; [repeat constructor; cbn; tauto|].
  destruct C17_properties_F18_witnesses as (_ & _ & _ & _ & _ & H). rewrite H. discriminate.
Qed.

(* candidate finding (not F18): every character of the value is fine and the bytes are UTF-8, but the value is 255
   'a' followed by U+65E5: one byte is left in the writer's 256-byte buffer, the escape 日 is cut to "\", the line
   ends in a continuation backslash at the end of the text and the reader drops the pair: the map comes back EMPTY.
   With 253 'a' the escape is cut to "\u6" and the reader rejects the text. *)
Theorem C17_properties_truncation_witnesses :
  let v255 := repeat 97 255 ++ [26085] in
  let v253 := repeat 97 253 ++ [26085] in
  forallb char_ok v255 = true /\ utf8_ok (wire_bytes (pp_write_escaped v255)) = true /\ pair_clean [107] v255 = false /\
  pp_roundtrip [] [] [([107], v255)] = POk [] /\
  pair_clean [107] v253 = false /\ pp_roundtrip [] [] [([107], v253)] = PErr pe_digits 1 /\
  representable ([107], repeat 97 250 ++ [26085]) = true /\ representable ([107], repeat 97 256 ++ [26085]) = true.
Proof. vm_compute. repeat split. Qed.
Theorem C17_properties_truncation_refuted : exists m,
  NoDup (map fst m) /\ Forall (fun kv => forallb char_ok (fst kv) && forallb char_ok (snd kv) &&
                                         utf8_ok (wire_bytes (pp_write_escaped (fst kv))) &&
                                         utf8_ok (wire_bytes (pp_write_escaped (snd kv))) = true) m /\
  pp_roundtrip [] [] m <> POk m.
Proof.
  exists [([107], repeat 97 255 ++ [26085])]. split; [repeat constructor; cbn; tauto|].
  split; [constructor; [vm_compute; reflexivity|constructor]|].
  destruct C17_properties_truncation_witnesses as (_ & _ & _ & H & _). cbv zeta in H. rewrite H. discriminate.
Qed.

(* candidate finding (not F18): the key "ï»¿k" (U+00EF U+00BB U+00BF 'k') is written as the bytes EF BB BF 6B, which
   map_to_properties reads as the text U+FEFF "k=v"; the reader sniffs the byte order mark, switches from windows-1252
   to UTF-8 and drops the mark: the pair comes back under the key "k".  Every character is fine, the bytes are UTF-8,
   nothing is cut. *)
Theorem C17_properties_bom_witnesses :
  forallb char_ok [239; 187; 191; 107] = true /\ utf8_ok (wire_bytes (pp_write_escaped [239; 187; 191; 107])) = true /\
  pair_clean [239; 187; 191; 107] [118] = true /\ representable ([239; 187; 191; 107], [118]) = false /\
  cmd_map_to_properties [] [([239; 187; 191; 107], [118])] = POk [65279; 107; 61; 118] /\
  pp_roundtrip [] [] [([239; 187; 191; 107], [118])] = POk [([107], [118])] /\
  representable ([107], [239; 187; 191; 118]) = true.
Proof. vm_compute. repeat split. Qed.
Theorem C17_properties_bom_refuted : exists m,
  NoDup (map fst m) /\ Forall (fun kv => forallb char_ok (fst kv) && forallb char_ok (snd kv) &&
                                         utf8_ok (wire_bytes (pp_write_escaped (fst kv))) &&
                                         utf8_ok (wire_bytes (pp_write_escaped (snd kv))) &&
                                         pair_clean (fst kv) (snd kv) = true) m /\
  pp_roundtrip [] [] m <> POk m.
Proof.
  exists [([239; 187; 191; 107], [118])]. split; [repeat constructor; cbn; tauto|].
  split; [constructor; [vm_compute; reflexivity|constructor]|].
  destruct C17_properties_bom_witnesses as (_ & _ & _ & _ & _ & H & _). rewrite H. discriminate.
Qed.

(* whatever the text, the logical lines handed to parse_line hold neither CR nor LF: the assumption under which
   LINE_RE (whose '.' does not match LF) is modelled by the scanner pp_parse_line *)
Theorem C17_properties_lines : forall text,
  Forall (fun l => Forall (fun c => is_nl c = false) (snd l)) (pp_logical_lines (pp_natural_lines text)).
Proof. exact logical_lines_no_nl. Qed.
