(* C20 — The command-line tool reports what the library decided.
   Property theorems only; every proof is [exact <lemma>] (tables: vm_compute on regenerated data).

   [args] is argv without the program name.  The library's verdicts (run_file, run_text, repl,
   parse_file) are universally quantified: the theorems hold whatever the library decides.
   Process exit, stdout plumbing and argv decoding are the runtime's: tied by the correspondence
   run only (partial).  Case mapping is ASCII (see Cli.v): C20_lint speaks about names made of
   ASCII characters. *)
Require Import DS.Base DS.Parser DS.Cli DS.CliProof.
Require DSG.GenCli.

(* the regenerated tables are the ones the model is written for *)
Theorem C20_tables :
  DSG.GenCli.gen_cli_understood = true /\
  (* the SET of option spellings (their order inside one `||` test is immaterial; run_cli itself is tied by Src_cli_dispatch) *)
  same_elems DSG.GenCli.gen_cli_flags [s_version; s_help; s_h; s_e; s_eval; s_l; s_lint] = true /\
  DSG.GenCli.gen_cli_min_args = 2 /\
  DSG.GenCli.gen_cli_err_status <> 0 /\
  DSG.GenCli.gen_lint_order = [[108;97;98;101;108]; [99;111;109;109;97;110;100]; [111;117;116;112;117;116]].
Proof. repeat split; try reflexivity; try discriminate. Qed.

(* ---- the dispatch table ---- *)
Theorem C20_dispatch_repl : dispatch [] = ARepl.
Proof. exact dispatch_repl. Qed.
Theorem C20_dispatch_version : forall r, dispatch (s_version :: r) = AVersion.
Proof. exact dispatch_version. Qed.
Theorem C20_dispatch_help : forall a r, In a [s_help; s_h] -> dispatch (a :: r) = AHelp.
Proof. exact dispatch_help. Qed.
(* a single argument that is not --version / --help / -h is a script file — including a lone
   -e, --eval, -l, --lint, and -v (which is not an option of this tool) *)
Theorem C20_dispatch_single : forall a, ~ In a [s_version; s_help; s_h] -> dispatch [a] = ARunFile a.
Proof. exact dispatch_single. Qed.
Theorem C20_dispatch_eval : forall a t r, In a [s_e; s_eval] -> dispatch (a :: t :: r) = ARunText t.
Proof. exact dispatch_eval. Qed.
Theorem C20_dispatch_lint : forall a f r, In a [s_l; s_lint] -> dispatch (a :: f :: r) = ALint f.
Proof. exact dispatch_lint. Qed.
Theorem C20_dispatch_file : forall a b r,
  ~ In a [s_version; s_help; s_h; s_e; s_eval; s_l; s_lint] -> dispatch (a :: b :: r) = ARunFile a.
Proof. exact dispatch_file. Qed.
(* the rows cover every argument vector *)
Theorem C20_dispatch_total : forall args,
  args = [] \/
  (exists a r, args = a :: r /\ In a [s_version; s_help; s_h]) \/
  (exists a, args = [a] /\ ~ In a [s_version; s_help; s_h]) \/
  (exists a t r, args = a :: t :: r /\ In a [s_e; s_eval; s_l; s_lint]) \/
  (exists a b r, args = a :: b :: r /\ ~ In a [s_version; s_help; s_h; s_e; s_eval; s_l; s_lint]).
Proof. exact dispatch_cases. Qed.

(* ---- exit status ----
   [st] is the status main passes to exit(..) when run_cli returns Err: any non-zero value; the one
   in the source is DSG.GenCli.gen_cli_err_status (non-zero by C20_tables), see C20_exit_source *)
Theorem C20_exit : forall st, st <> 0 -> forall r, exit_code st r = 0 <-> r = ROk.
Proof. exact exit_code_zero. Qed.
Theorem C20_exit_source : forall r, exit_code DSG.GenCli.gen_cli_err_status r = 0 <-> r = ROk.
Proof. exact (exit_code_zero _ (proj1 (proj2 (proj2 (proj2 C20_tables))))). Qed.
Theorem C20_error_line : forall st, st <> 0 -> forall r, prints_error r = true <-> exit_code st r <> 0.
Proof. exact prints_error_iff. Qed.
(* status 0 exactly when the library call selected by the arguments succeeded *)
Theorem C20_exit_status : forall run_file run_text repl parse_file st, st <> 0 -> forall args,
  exit_status run_file run_text repl parse_file st args = 0 <->
  match dispatch args with
  | ARepl => repl = true
  | AVersion | AHelp => True
  | ARunFile f => run_file f = true
  | ARunText t => run_text t = true
  | ALint f => exists is, parse_file f = TOk is /\ Forall lower_instr is
  end.
Proof. exact exit_status_spec. Qed.

(* ---- lint ---- *)
(* accepted exactly when the file parses and every label, command name and output variable is
   free of (ASCII) upper-case letters *)
Theorem C20_lint : forall r,
  lint_parsed r = ROk <-> exists is, r = TOk is /\ Forall lower_instr is.
Proof. exact lint_parsed_ok. Qed.
(* rejected: either the parse error itself, or the first offending instruction with its position
   and the first offending field in the order label, command, output *)
Theorem C20_lint_report : forall r e,
  lint_parsed r = RErr e ->
  (exists pe l s, r = TErr pe l s /\ e = CParse pe l s) \/
  (exists is pre i post k, r = TOk is /\ is = pre ++ i :: post /\ Forall lower_instr pre /\
     instr_lint i = Some k /\ e = CLint k (i_line i) (i_source i)).
Proof. exact lint_parsed_err. Qed.
Theorem C20_lint_field : forall l o c k,
  lint_instruction l o c = Some k <->
  match k with
  | LLabel => ~ lower_name l
  | LCommand => lower_name l /\ ~ lower_name c
  | LOutput => lower_name l /\ lower_name c /\ ~ lower_name o
  end.
Proof. exact lint_instruction_some. Qed.
(* lint only parses: its verdict does not depend on what running anything would do *)
Theorem C20_lint_only_parses : forall rf rt rp rf' rt' rp' pf args f,
  dispatch args = ALint f ->
  run_cli rf rt rp pf args = lint_parsed (pf f) /\
  run_cli rf rt rp pf args = run_cli rf' rt' rp' pf args.
Proof. exact lint_only_parses. Qed.

(* non-vacuity: `Out = set x` (upper-case output variable) is rejected at its line; -e alone is a file *)
Theorem C20_nonvacuous :
  lint_parsed (parse_text [97;10; 79;117;116;32;61;32;115;101;116;32;120]) = RErr (CLint LOutput 2 None) /\
  dispatch [s_e] = ARunFile s_e /\ dispatch [[45;118]] = ARunFile [45;118].
Proof. repeat split; vm_compute; reflexivity. Qed.
