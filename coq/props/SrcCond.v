(* SrcCond — the truthiness rule the C06 theorems are about IS the current source.
   gen_is_true is regenerated on every run from duckscript_sdk/src/utils/condition.rs (fn is_true) by the
   translator lib/rs2v.py (lib/gen/cond_gen.py); Cond.is_true is the hand-written model (over the
   regenerated table GenTruth.v) that C06_truth / C06_eval reason about, CondSpec.falsy the property's rule.
   `to_lowercase` is translated to Base.lower_str (modelling assumption, see Base.v).  Property theorems only. *)
Require Import DS.Base DS.Cond DS.CondSpec DS.CondGenTie.
Require Import DSG.GenCondFn.

(* the hand model equals the translation of the source, for every optional value *)
Theorem Src_cond_is_true : gen_cond_understood = true ->
  forall v, gen_is_true v = is_true v.
Proof. exact gen_is_true_eq. Qed.
Print Assumptions Src_cond_is_true.

(* and the translation of the source computes exactly the property's rule *)
Theorem Src_cond_is_true_rule : gen_cond_understood = true ->
  forall v, gen_is_true v = match v with Some s => negb (falsy s) | None => false end.
Proof. exact gen_is_true_spec. Qed.
Print Assumptions Src_cond_is_true_rule.
