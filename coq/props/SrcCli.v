(* SrcCli — the command-line model the C20 theorems are about IS the current source.
   The gen_* functions are regenerated on every run from duckscript_cli/src/main.rs (run_cli, run_script, run_repl,
   main) and duckscript_cli/src/linter.rs (lint_file, lint_instructions, lint_instruction, is_lower_case) by the
   translator lib/rs2v.py (class FnGlue; lib/gen/cli_gen.py); Cli.v is the hand-written model that props/C20.v
   reasons about, CliFns.v names the Rust functions Cli.v folds into run_cli.  Each theorem is stated under the flag
   of its own function (stub and `false` when the translator does not understand that function any more).
   What the library decides (run_script_file / run_script / repl / parse_file) is a parameter on both sides.
   Modelling assumptions of the translation (lib/gen/cli_gen.py): `to_lowercase` is Base.lower_str; create_context()
   does not fail; println! only writes to stdout; a returning `main` is exit status 0.  Property theorems only. *)
Require Import DS.Base DS.Parser DS.Cli DS.CliFns DS.CliGenTie.
Require Import DSG.GenCliFn.

(* ---- linter.rs ---- *)
Theorem Src_cli_is_lower_case : gen_is_lower_case_understood = true ->
  forall v, gen_is_lower_case v = is_lower_case v.
Proof. exact gen_is_lower_case_eq. Qed.
Print Assumptions Src_cli_is_lower_case.

(* the first offending field in the order label, command, output *)
Theorem Src_cli_lint_instruction : gen_lint_instruction_understood = true ->
  forall label output command, gen_lint_instruction label output command = lint_instruction label output command.
Proof. exact gen_lint_instruction_eq. Qed.
Print Assumptions Src_cli_lint_instruction.

(* the loop: the first offending instruction is reported, with its line and source *)
Theorem Src_cli_lint_instructions : gen_lint_instructions_understood = true ->
  forall is, gen_lint_instructions is = lint_instructions is.
Proof. exact gen_lint_instructions_eq. Qed.
Print Assumptions Src_cli_lint_instructions.

(* lint_file only parses: (is "parsed correctly" printed, the verdict) as a function of parse_file's answer *)
Theorem Src_cli_lint_file : gen_lint_file_understood = true ->
  forall parse_file file,
    gen_lint_file parse_file file = (lint_says_parsed (parse_file file), lint_parsed (parse_file file)).
Proof. exact gen_lint_file_eq. Qed.
Print Assumptions Src_cli_lint_file.

(* ---- main.rs ---- *)
Theorem Src_cli_run_script : gen_run_script_understood = true ->
  forall run_file run_text value is_file,
    gen_run_script run_file run_text value is_file
    = if is_file then of_bool (run_file value) else of_bool (run_text value).
Proof. exact gen_run_script_eq. Qed.
Print Assumptions Src_cli_run_script.

Theorem Src_cli_run_repl : gen_run_repl_understood = true ->
  forall repl, gen_run_repl repl = of_bool repl.
Proof. exact gen_run_repl_eq. Qed.
Print Assumptions Src_cli_run_repl.

(* run_cli on the full argument vector (program name first): which callee the arguments select.  [Some]: no index of
   run_cli is out of bounds, whatever the vector *)
Theorem Src_cli_dispatch : gen_run_cli_understood = true ->
  forall argv, gen_dispatch argv = Some (dispatch (tl argv)).
Proof. exact gen_dispatch_eq. Qed.
Print Assumptions Src_cli_dispatch.

(* .. and what it returns, for every verdict of the library *)
Theorem Src_cli_run_cli : gen_run_cli_understood = true ->
  forall run_file run_text repl parse_file argv,
    gen_run_cli run_file run_text repl parse_file argv = Some (run_cli run_file run_text repl parse_file (tl argv)).
Proof. exact gen_run_cli_eq. Qed.
Print Assumptions Src_cli_run_cli.

(* main: exit status and the "Error: .." line as a function of run_cli's verdict; the status of the source is non-zero *)
Theorem Src_cli_main : gen_main_understood = true ->
  exists st, st <> 0 /\ forall r, gen_main r = (exit_code st r, prints_error r).
Proof. exact gen_main_eq. Qed.
Print Assumptions Src_cli_main.
