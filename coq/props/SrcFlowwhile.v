(* SrcFlowwhile — the while / end_while commands the C04 / C05 theorems are about ARE the current source.
   gen_pckg_concat, gen_get_line_key, gen_create_while_meta_info_for_line, gen_get_or_create_while_meta_info_for_line,
   gen_pop_call_info_for_line, gen_store_call_info, gen_while_run, gen_endwhile_run are regenerated on every run from
   duckscript_sdk/src/sdk/std/flowcontrol/while_mod/mod.rs, flowcontrol/mod.rs (fn get_line_key) and utils/pckg.rs (fn concat) by the translator
   lib/rs2v.py (classes PFw / FnFw, client lib/gen/flowwhile_gen.py: the serialisers are executed to learn the stored
   shape, the deserialisers are executed on it); Flow.create_loop_meta / while_meta_info / wh_pop / wh_push / step_while /
   step_endwhile and FlowFnC.cstep_while are the hand model of C04_sim / C04_program / C05_sim / C05_sim_cond.
   Proofs: theories/FlowwhileGenTie.v.  One `understood` flag per translated function; every theorem lists the flags
   of the translations it speaks about.

   The model omits line_context_name (CallInfo field, prefix of the cache keys): the ties hold on the typed states
   [wst_of ctx f] = "the model state f, every cache key the string get_line_key builds for ctx, every stack entry
   carrying ctx", for EVERY context name ctx — the model's own assumption that the name does not change while a loop is
   active (no alias scope is entered or left between `while` and its `end`).  Src_flowwhile_pop_all /
   Src_flowwhile_endwhile_all say what the source does without that assumption (entries of another context are
   dropped).  What the generator configuration supplies (typed record for the state map, find_commands / end::set_command /
   eval_condition as the model's functions resp. an oracle, fuel of the pop loop): see lib/gen/flowwhile_gen.py.
   Property theorems only. *)
Require Import DS.Base DS.Cond DS.FlowTables DS.FlowScan DS.Flow DS.FlowFn DS.FlowFnC DS.FlowwhileGenLib DS.FlowwhileGenTie.
Require Import DSG.GenFlowNames DSG.GenFlowwhileFn.
Open Scope nat_scope.

(* utils/pckg.rs::concat is the function the translations spell pckg_concat *)
Theorem Src_flowwhile_pckg_concat : gen_pckg_concat_understood = true ->
  forall parent current, gen_pckg_concat parent current = pckg_concat parent current.
Proof. exact gen_pckg_concat_eq. Qed.
Print Assumptions Src_flowwhile_pckg_concat.

(* the cache key of a line: context name, "::", the line number in decimal — injective in the line *)
Theorem Src_flowwhile_line_key : gen_get_line_key_understood = true ->
  forall line s, gen_get_line_key line s = line_key (ws_ctx s) line.
Proof. exact gen_get_line_key_eq. Qed.
Print Assumptions Src_flowwhile_line_key.

Theorem Src_flowwhile_line_key_inj : forall ctx a b, line_key ctx a = line_key ctx b -> a = b.
Proof. exact line_key_inj. Qed.
Print Assumptions Src_flowwhile_line_key_inj.

(* the scan for the end of the block: the name lists the source builds are the tables of C04, from line + 1 *)
Theorem Src_flowwhile_create : gen_create_while_meta_info_for_line_understood = true ->
  forall P line, res_opt (gen_create_while_meta_info_for_line gen_flow_package (cmds P) line)
                 = create_loop_meta gen_while_tables P line.
Proof. exact gen_create_while_meta_info_eq. Qed.
Print Assumptions Src_flowwhile_create.

(* cache lookup, scan, cache write, registration of the end command *)
Theorem Src_flowwhile_meta_info :
  gen_get_or_create_while_meta_info_for_line_understood = true -> gen_get_line_key_understood = true ->
  gen_create_while_meta_info_for_line_understood = true ->
  forall ctx P line f,
    let g := gen_get_or_create_while_meta_info_for_line gen_flow_package (cmds P) line (wst_of ctx f) in
    res_opt (fst g) = fst (while_meta_info P line f) /\ snd g = wst_of ctx (snd (while_meta_info P line f)).
Proof. exact gen_get_or_create_eq. Qed.
Print Assumptions Src_flowwhile_meta_info.

(* the pop loop, on every state *)
Theorem Src_flowwhile_pop_all : gen_pop_call_info_for_line_understood = true ->
  forall line s,
    gen_pop_call_info_for_line line s
    = (fst (wc_pop line (ws_ctx s) (ws_stk s)),
       mkWS (ws_ctx s) (ws_cache s) (snd (wc_pop line (ws_ctx s) (ws_stk s))) (ws_end s)).
Proof. exact gen_pop_call_info_eq. Qed.
Print Assumptions Src_flowwhile_pop_all.

(* ... and on the states of the model: Flow.wh_pop *)
Theorem Src_flowwhile_pop : gen_pop_call_info_for_line_understood = true ->
  forall ctx line f,
    gen_pop_call_info_for_line line (wst_of ctx f)
    = (option_map (fun m => mkWC m ctx) (fst (wh_pop line (f_whstk f))),
       wst_of ctx (set_whstk (snd (wh_pop line (f_whstk f))) f)).
Proof. exact gen_pop_call_info_model. Qed.
Print Assumptions Src_flowwhile_pop.

Theorem Src_flowwhile_store : gen_store_call_info_understood = true ->
  forall ctx m f, gen_store_call_info (mkWC m ctx) (wst_of ctx f) = wst_of ctx (wh_push m f).
Proof. exact gen_store_call_info_model. Qed.
Print Assumptions Src_flowwhile_store.

(* WhileCommand::run = Flow.step_while: same result kind and goto target, same flow state; the condition evaluator
   (an oracle of the translation) is asked exactly once, on the state after the meta info was cached and before the
   push, and only its answer on that state is assumed *)
Theorem Src_flowwhile_while_run :
  gen_while_run_understood = true -> gen_get_or_create_while_meta_info_for_line_understood = true ->
  gen_get_line_key_understood = true -> gen_create_while_meta_info_for_line_understood = true ->
  gen_store_call_info_understood = true ->
  forall ctx P line c w f (A : Type) (arguments : list A) evalc, arguments <> [] ->
    (let f1 := snd (while_meta_info P line f) in
     evalc arguments (wst_of ctx f1) = (inl (fst (eval_cond c w)), wst_of ctx f1)) ->
    let g := gen_while_run A evalc gen_flow_package (cmds P) arguments line (wst_of ctx f) in
    let m := step_while P line c (w, f) in
    gres_kind (fst g) = cres_kind (fst m) /\ snd g = wst_of ctx (snd (snd m)).
Proof. exact gen_while_run_eq. Qed.
Print Assumptions Src_flowwhile_while_run.

(* ... = FlowFnC.cstep_while for every evaluator of the model (conditions that call user functions, C05_sim_cond) *)
Theorem Src_flowwhile_while_run_cond :
  gen_while_run_understood = true -> gen_get_or_create_while_meta_info_for_line_understood = true ->
  gen_get_line_key_understood = true -> gen_create_while_meta_info_for_line_understood = true ->
  gen_store_call_info_understood = true ->
  forall ctx (ev : ev_t) P line c w f gs (A : Type) (arguments : list A) evalc msg, arguments <> [] ->
    (let f1 := snd (while_meta_info (map down P) line f) in
     evalc arguments (wst_of ctx f1)
     = match ev c (w, f1, gs) with
       | None => (inr msg, wst_of ctx f1)
       | Some (b, (_, f2, _)) => (inl b, wst_of ctx f2)
       end) ->
    let g := gen_while_run A evalc gen_flow_package (cmds (map down P)) arguments line (wst_of ctx f) in
    let m := cstep_while ev P line c (w, f, gs) in
    gres_kind (fst g) = cres_kind (fst m) /\ snd g = wst_of ctx (snd (fst (snd m))).
Proof. exact gen_while_run_cstep. Qed.
Print Assumptions Src_flowwhile_while_run_cond.

(* EndWhileCommand::run = Flow.step_endwhile *)
Theorem Src_flowwhile_endwhile_run :
  gen_endwhile_run_understood = true -> gen_pop_call_info_for_line_understood = true ->
  gen_store_call_info_understood = true ->
  forall ctx line w f,
    let g := gen_endwhile_run line (wst_of ctx f) in
    let m := step_endwhile line (w, f) in
    gres_kind (fst g) = cres_kind (fst m) /\ snd g = wst_of ctx (snd (snd m)).
Proof. exact gen_endwhile_run_eq. Qed.
Print Assumptions Src_flowwhile_endwhile_run.

(* ... and on every state: the popped entry is re-pushed as it is, the jump goes to its start line *)
Theorem Src_flowwhile_endwhile_all :
  gen_endwhile_run_understood = true -> gen_pop_call_info_for_line_understood = true ->
  gen_store_call_info_understood = true ->
  forall line s,
    let p := wc_pop line (ws_ctx s) (ws_stk s) in
    match fst p with
    | Some ci => gen_endwhile_run line s
                 = (GGoto (lm_start (wc_meta ci)), mkWS (ws_ctx s) (ws_cache s) (ci :: snd p) (ws_end s))
    | None => gres_kind (fst (gen_endwhile_run line s)) = KError /\
              snd (gen_endwhile_run line s) = mkWS (ws_ctx s) (ws_cache s) (snd p) (ws_end s)
    end.
Proof. exact gen_endwhile_run_all. Qed.
Print Assumptions Src_flowwhile_endwhile_all.
