(* C13 — Setting the halt flag stops the run at the next instruction boundary.
   Property theorems only.  The flag is the world's [halt] (a command raised it) or the oracle
   [ext] on poll numbers (the embedder / another thread raised it); nothing is assumed about
   [ext] except where stated.  [iter_nohalt n c] is the configuration the machine that never
   looks at the flag reaches after n instruction executions, [unseen_before c k] says that none of
   the polls 0..k-1 sees the flag.  All statements are parametric in the commands. *)
From stdpp Require Import gmap.
Require Import DS.Base DS.Runner DS.RunnerHalt DS.SdkErr DS.SdkErrProof DS.RunnerNested.
Local Open Scope nat_scope.

Section C13.
Variable cstate : Type.
Variable exists_cmd : cstate -> str -> bool.
Variable cmd : str -> inv -> world cstate -> result * world cstate.
Variable ext : nat -> bool.

(* if poll k is the first that sees the flag, the run returns Ok with exactly the context after
   the first k instruction executions, and its trace is that of those k executions *)
Theorem C13_prefix : forall prog w k ck fuel,
  iter_nohalt cstate exists_cmd cmd prog (label_table prog) k (init w) = Some ck ->
  unseen_before cstate exists_cmd cmd ext prog (label_table prog) (init w) k ->
  flag_seen cstate ext ck = true -> k < fuel ->
  run cstate exists_cmd cmd ext fuel prog w = Done (FOk Halted (wd ck)) (trace ck).
Proof. intros prog w. exact (halt_prefix cstate exists_cmd cmd ext prog (label_table prog) (init w)). Qed.

(* that trace is the first k entries of the un-halted trace: of every longer un-halted run ... *)
Theorem C13_trace_prefix : forall prog w k ck n cn,
  iter_nohalt cstate exists_cmd cmd prog (label_table prog) k (init w) = Some ck -> k <= n ->
  iter_nohalt cstate exists_cmd cmd prog (label_table prog) n (init w) = Some cn ->
  trace ck = firstn k (trace cn) /\ length (trace ck) = k.
Proof. intros prog w k ck n cn. exact (halt_trace_prefix cstate exists_cmd cmd prog (label_table prog) (init w) k ck n cn eq_refl). Qed.

(* ... and of the finished un-halted run, when the program ends by itself *)
Theorem C13_trace_prefix_done : forall prog w k ck fuel f t,
  iter_nohalt cstate exists_cmd cmd prog (label_table prog) k (init w) = Some ck ->
  loop_nohalt cstate exists_cmd cmd prog (label_table prog) fuel (init w) = Done f t ->
  trace ck = firstn k t /\ length (trace ck) = k.
Proof. intros prog w k ck fuel f t. exact (halt_trace_prefix_done cstate exists_cmd cmd prog (label_table prog) (init w) k ck fuel f t eq_refl). Qed.

(* a run that ends because of the flag stopped at an instruction boundary of the un-halted run:
   no instruction was started after the poll that saw the flag, none was cut short *)
Theorem C13_boundary : forall prog w fuel w' t,
  run cstate exists_cmd cmd ext fuel prog w = Done (FOk Halted w') t ->
  exists k ck, iter_nohalt cstate exists_cmd cmd prog (label_table prog) k (init w) = Some ck /\
               unseen_before cstate exists_cmd cmd ext prog (label_table prog) (init w) k /\
               flag_seen cstate ext ck = true /\ w' = wd ck /\ t = trace ck.
Proof. intros prog w fuel. exact (halted_is_boundary cstate exists_cmd cmd ext prog (label_table prog) fuel (init w)). Qed.

(* a program that would never end returns successfully within n + 1 iterations once the flag is
   up from poll n on *)
Theorem C13_terminates : forall prog w n,
  (forall fuel, loop_nohalt cstate exists_cmd cmd prog (label_table prog) fuel (init w) = OutOfFuel) ->
  (forall p, n <= p -> ext p = true) ->
  exists k ck, k <= n /\ iter_nohalt cstate exists_cmd cmd prog (label_table prog) k (init w) = Some ck /\
    forall fuel, k < fuel -> run cstate exists_cmd cmd ext fuel prog w = Done (FOk Halted (wd ck)) (trace ck).
Proof. intros prog w n. exact (halt_terminates cstate exists_cmd cmd ext prog (label_table prog) (init w) n). Qed.

(* when a command raises the flag during the n-th execution the run stops no later than the
   boundary that follows it *)
Theorem C13_by_command : forall prog w n cn,
  iter_nohalt cstate exists_cmd cmd prog (label_table prog) n (init w) = Some cn -> halt (wd cn) = true ->
  exists k ck, k <= n /\ iter_nohalt cstate exists_cmd cmd prog (label_table prog) k (init w) = Some ck /\
    forall fuel, k < fuel -> run cstate exists_cmd cmd ext fuel prog w = Done (FOk Halted (wd ck)) (trace ck).
Proof. intros prog w n cn. exact (halt_by_command cstate exists_cmd cmd ext prog (label_table prog) (init w) n cn). Qed.
End C13.

(* ---- nested flows (script-implemented commands, condition functions, eval) ------------------ *)
(* eval_instructions (utils/eval.rs, modelled in SdkErr.v) never looks at the flag.  If the commands
   themselves behave alike whether the flag is up or not, a nested flow started with the flag up
   runs exactly the inner instructions it runs with the flag down, with the same results, output
   and invocations: nothing inside is skipped or cut short *)
Theorem C13_nested_blind : forall cstate exists_cmd (cmd : str -> inv -> world cstate -> result * world cstate),
  (forall name a w, cmd name a (with_halt cstate w true) = (fst (cmd name a w), with_halt cstate (snd (cmd name a w)) true)) ->
  forall fuel body line w fo calls,
  eval_instructions cstate exists_cmd cmd fuel body line (with_halt cstate w true) fo calls =
  match eval_instructions cstate exists_cmd cmd fuel body line w fo calls with
  | Some o => Some (EO cstate (eo_result cstate o) (eo_output cstate o) (with_halt cstate (eo_w cstate o) true) (eo_calls cstate o))
  | None => None
  end.
Proof. exact eval_flag_blind. Qed.

(* C13_prefix with "instruction execution" meaning top-level instruction: the command of the
   instruction at pc is a script-implemented command (the wrapper over eval_instructions) whose
   inner instruction j raises the flag (commands never clear it, the wrapper's clean-up does not
   touch it).  Then the flag is up when the command returns, the configuration after the top-level
   instruction is the one of the un-halted machine after that one instruction ([iter_nohalt 1]),
   and the run returns Ok Halted with exactly that configuration at the next poll *)
Theorem C13_nested : forall cstate exists_cmd (cmd : str -> inv -> world cstate -> result * world cstate) ext,
  (forall name a w, halt w = true -> halt (snd (cmd name a w)) = true) ->
  forall prog lt prepare cleanup leaked,
  (forall w0 w1, halt (cleanup w0 w1) = halt w1) ->
  forall c c' i s name fuel_body amount body r w' calls j wj ij sj fuel,
  flag_seen cstate ext c = false -> prog !! pc c = Some i -> i_type i = IScript s -> s_cmd s = Some name ->
  exists_cmd (cst (wd c)) name = true ->
  cmd name (Inv (s_args s) (s_out s) (pc c)) (wd c) = (r, w') ->
  alias_run cstate exists_cmd cmd prepare cleanup leaked fuel_body amount body (Inv (s_args s) (s_out s) (pc c)) (wd c) = Some (r, w', calls) ->
  amount <= length (s_args s) ->
  body_reaches cstate exists_cmd cmd body 0 (prepare (s_args s) (wd c)) j wj ->
  body !! j = Some ij -> i_type ij = IScript sj ->
  halt (ri_w (run_instruction cstate exists_cmd cmd wj ij j)) = true ->
  exec cstate exists_cmd cmd prog lt c = inl c' -> 2 <= fuel ->
  halt w' = true /\ iter_nohalt cstate exists_cmd cmd prog lt 1 c = Some c' /\
  loop cstate exists_cmd cmd ext prog lt fuel c = Done (FOk Halted (wd c')) (trace c').
Proof. exact halt_nested. Qed.

(* the same for any command that leaves the flag up, whatever it runs inside *)
Theorem C13_after_instruction : forall cstate exists_cmd (cmd : str -> inv -> world cstate -> result * world cstate) ext,
  (forall name a w, halt w = true -> halt (snd (cmd name a w)) = true) ->
  forall prog lt c c' i fuel,
  flag_seen cstate ext c = false -> prog !! pc c = Some i ->
  halt (ri_w (run_instruction cstate exists_cmd cmd (wd c) i (pc c))) = true ->
  exec cstate exists_cmd cmd prog lt c = inl c' -> 2 <= fuel ->
  iter_nohalt cstate exists_cmd cmd prog lt 1 c = Some c' /\
  loop cstate exists_cmd cmd ext prog lt fuel c = Done (FOk Halted (wd c')) (trace c').
Proof. exact halt_after_instruction. Qed.
