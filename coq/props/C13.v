(* C13 — Setting the halt flag stops the run at the next instruction boundary.
   Property theorems only.  The flag is the world's [halt] (a command raised it) or the oracle
   [ext] on poll numbers (the embedder / another thread raised it); nothing is assumed about
   [ext] except where stated.  [iter_nohalt n c] is the configuration the machine that never
   looks at the flag reaches after n instruction executions, [unseen_before c k] says that none of
   the polls 0..k-1 sees the flag.  All statements are parametric in the commands. *)
From stdpp Require Import gmap.
Require Import DS.Base DS.Runner DS.RunnerHalt.
Local Open Scope nat_scope.

Section C13.
Variable cstate : Type.
Variable exists_cmd : cstate -> str -> bool.
Variable cmd : str -> inv -> world cstate -> result * world cstate.
Variable ext : nat -> bool.

(* if poll k is the first that sees the flag, the run returns Ok with exactly the context after
   the first k instruction executions, and its trace is that of those k executions *)
Theorem C13_prefix : forall prog w k ck fuel,
  iter_nohalt cstate exists_cmd cmd prog (label_table prog) k (init w) = Some ck ->
  unseen_before cstate exists_cmd cmd ext prog (label_table prog) (init w) k ->
  flag_seen cstate ext ck = true -> k < fuel ->
  run cstate exists_cmd cmd ext fuel prog w = Done (FOk Halted (wd ck)) (trace ck).
Proof. intros prog w. exact (halt_prefix cstate exists_cmd cmd ext prog (label_table prog) (init w)). Qed.

(* that trace is the first k entries of the un-halted trace: of every longer un-halted run ... *)
Theorem C13_trace_prefix : forall prog w k ck n cn,
  iter_nohalt cstate exists_cmd cmd prog (label_table prog) k (init w) = Some ck -> k <= n ->
  iter_nohalt cstate exists_cmd cmd prog (label_table prog) n (init w) = Some cn ->
  trace ck = firstn k (trace cn) /\ length (trace ck) = k.
Proof. intros prog w k ck n cn. exact (halt_trace_prefix cstate exists_cmd cmd prog (label_table prog) (init w) k ck n cn eq_refl). Qed.

(* ... and of the finished un-halted run, when the program ends by itself *)
Theorem C13_trace_prefix_done : forall prog w k ck fuel f t,
  iter_nohalt cstate exists_cmd cmd prog (label_table prog) k (init w) = Some ck ->
  loop_nohalt cstate exists_cmd cmd prog (label_table prog) fuel (init w) = Done f t ->
  trace ck = firstn k t /\ length (trace ck) = k.
Proof. intros prog w k ck fuel f t. exact (halt_trace_prefix_done cstate exists_cmd cmd prog (label_table prog) (init w) k ck fuel f t eq_refl). Qed.

(* a run that ends because of the flag stopped at an instruction boundary of the un-halted run:
   no instruction was started after the poll that saw the flag, none was cut short *)
Theorem C13_boundary : forall prog w fuel w' t,
  run cstate exists_cmd cmd ext fuel prog w = Done (FOk Halted w') t ->
  exists k ck, iter_nohalt cstate exists_cmd cmd prog (label_table prog) k (init w) = Some ck /\
               unseen_before cstate exists_cmd cmd ext prog (label_table prog) (init w) k /\
               flag_seen cstate ext ck = true /\ w' = wd ck /\ t = trace ck.
Proof. intros prog w fuel. exact (halted_is_boundary cstate exists_cmd cmd ext prog (label_table prog) fuel (init w)). Qed.

(* a program that would never end returns successfully within n + 1 iterations once the flag is
   up from poll n on *)
Theorem C13_terminates : forall prog w n,
  (forall fuel, loop_nohalt cstate exists_cmd cmd prog (label_table prog) fuel (init w) = OutOfFuel) ->
  (forall p, n <= p -> ext p = true) ->
  exists k ck, k <= n /\ iter_nohalt cstate exists_cmd cmd prog (label_table prog) k (init w) = Some ck /\
    forall fuel, k < fuel -> run cstate exists_cmd cmd ext fuel prog w = Done (FOk Halted (wd ck)) (trace ck).
Proof. intros prog w n. exact (halt_terminates cstate exists_cmd cmd ext prog (label_table prog) (init w) n). Qed.

(* when a command raises the flag during the n-th execution the run stops no later than the
   boundary that follows it *)
Theorem C13_by_command : forall prog w n cn,
  iter_nohalt cstate exists_cmd cmd prog (label_table prog) n (init w) = Some cn -> halt (wd cn) = true ->
  exists k ck, k <= n /\ iter_nohalt cstate exists_cmd cmd prog (label_table prog) k (init w) = Some ck /\
    forall fuel, k < fuel -> run cstate exists_cmd cmd ext fuel prog w = Done (FOk Halted (wd ck)) (trace ck).
Proof. intros prog w n cn. exact (halt_by_command cstate exists_cmd cmd ext prog (label_table prog) (init w) n cn). Qed.
End C13.
