(* SrcCodeccmds — the command models the C17 round trips are stated through ARE the current source.
   The gen_cmd_* functions are regenerated on every run from the `run` functions (impl Command for CommandImpl) of
   duckscript_sdk/src/sdk/std/string/{string_to_bytes, bytes_to_string, base64_encode, base64_decode}/mod.rs and
   collections/map_to_properties/mod.rs by the
   translator lib/rs2v.py (grammar PColl, executor FnColl; lib/gen/codeccmds_gen.py); CodecCmds.v holds the command models
   (argument test, handle lookup, kind of the value found, error kinds, put_handle) around the codec functions of Codec.v
   that props/C17.v reasons about.  Each theorem is stated under the flag of its own command (stub and `false` when the
   translator does not understand that command any more).

   In the translation every `context.arguments[i]` of the source is an explicit `(CPanic, s)` arm; the second half of each
   Src_codeccmds_<name> theorem says no argument vector and no state reaches one.

   Modelling assumptions of the translation (lib/gen/codeccmds_gen.py): the CONFIGURED CALLEES base64 STANDARD.encode /
   .decode, String::into_bytes, str::from_utf8 are Codec.v's b64_encode / b64_decode / utf8_encode / utf8_decode and
   java_properties::write is CodecProps.v's pp_write on the HashMap<String, String> in its iteration order (tied to the
   crates by C17's correspondence run); integer / bool to_string are Strings.show_Z / show_N / "true" / "false"; the handle table is an association list (get / insert / remove of a HashMap),
   put_handle draws its key from the oracle rnd; error message TEXTS are erased to error kinds by the table of the
   generator.  Property theorems only. *)
Require Import DS.Base DS.Utf8 DS.Strings DS.Codec DS.CodecProof DS.CodecProps DS.Rs2vCodecLib DS.CodecCmds DS.CodecCmdsProof DS.CodeccmdsGenTie.
Require Import DSG.GenCodeccmdsFn.

Theorem Src_codeccmds_string_to_bytes : gen_cmd_string_to_bytes_understood = true ->
  forall rnd args s, gen_cmd_string_to_bytes rnd args s = cmd_string_to_bytes rnd args s /\
                     cdefined (fst (gen_cmd_string_to_bytes rnd args s)).
Proof. exact (fun U rnd args s => conj (gen_cmd_string_to_bytes_eq U rnd args s) (gen_cmd_string_to_bytes_defined U rnd args s)). Qed.
Print Assumptions Src_codeccmds_string_to_bytes.

Theorem Src_codeccmds_bytes_to_string : gen_cmd_bytes_to_string_understood = true ->
  forall rnd args s, gen_cmd_bytes_to_string rnd args s = cmd_bytes_to_string args s /\
                     cdefined (fst (gen_cmd_bytes_to_string rnd args s)).
Proof. exact (fun U rnd args s => conj (gen_cmd_bytes_to_string_eq U rnd args s) (gen_cmd_bytes_to_string_defined U rnd args s)). Qed.
Print Assumptions Src_codeccmds_bytes_to_string.

Theorem Src_codeccmds_base64_encode : gen_cmd_base64_encode_understood = true ->
  forall rnd args s, gen_cmd_base64_encode rnd args s = cmd_base64_encode args s /\
                     cdefined (fst (gen_cmd_base64_encode rnd args s)).
Proof. exact (fun U rnd args s => conj (gen_cmd_base64_encode_eq U rnd args s) (gen_cmd_base64_encode_defined U rnd args s)). Qed.
Print Assumptions Src_codeccmds_base64_encode.

Theorem Src_codeccmds_base64_decode : gen_cmd_base64_decode_understood = true ->
  forall rnd args s, gen_cmd_base64_decode rnd args s = cmd_base64_decode rnd args s /\
                     cdefined (fst (gen_cmd_base64_decode rnd args s)).
Proof. exact (fun U rnd args s => conj (gen_cmd_base64_decode_eq U rnd args s) (gen_cmd_base64_decode_defined U rnd args s)). Qed.
Print Assumptions Src_codeccmds_base64_decode.

(* map_to_properties: the flag parsing (`--prefix` only with at least three arguments), the lookup of the map handle, the
   kind test, the key / value loop (prefixing, get_as_string of state.rs inlined, the early return on an unsupported value),
   the writer call and the text glue; no panic arm is reached (the writer's fuel is the subject of C17_properties_fuel) *)
Theorem Src_codeccmds_map_to_properties : gen_cmd_map_to_properties_understood = true ->
  forall rnd args s, gen_cmd_map_to_properties rnd args s = cmd_map_to_properties_run args s /\
                     fst (gen_cmd_map_to_properties rnd args s) <> CPanic.
Proof. exact (fun U rnd args s => conj (gen_cmd_map_to_properties_eq U rnd args s) (gen_cmd_map_to_properties_no_panic U rnd args s)). Qed.
Print Assumptions Src_codeccmds_map_to_properties.

(* ... and on a map of strings with distinct keys (in any iteration order ms) that command model IS the function
   CodecProps.cmd_map_to_properties the theorems C17_properties / C17_properties_prefix / C17_properties_writer are about *)
Theorem Src_codeccmds_map_to_properties_link : forall p key ms rest s,
  ht_get key (handles s) = Some (SSub (strmap ms)) -> NoDup (map fst ms) ->
  cmd_map_to_properties_run (s_prefix_flag :: p :: key :: rest) s = (cres_of_pres (cmd_map_to_properties p ms), s) /\
  cmd_map_to_properties_run [key] s = (cres_of_pres (cmd_map_to_properties [] ms), s).
Proof. exact cmds_map_to_properties_link. Qed.
Print Assumptions Src_codeccmds_map_to_properties_link.

(* ---- the C17 round trips THROUGH the command models (hand-model theorems, no flag) --------------------------------- *)
(* C17_utf8 at the command level: what string_to_bytes stores under its fresh handle is read back as the same text *)
Theorem Src_codeccmds_utf8_roundtrip : forall rnd text rest rest' s, forallb scalar text = true ->
  exists key s1, cmd_string_to_bytes rnd (text :: rest) s = (CVal key, s1) /\
                 ht_get key (handles s1) = Some (SBytes (utf8_encode text)) /\
                 cmd_bytes_to_string (key :: rest') s1 = (CVal text, s1).
Proof. exact cmds_utf8_roundtrip. Qed.
Print Assumptions Src_codeccmds_utf8_roundtrip.

(* C17_b64 at the command level: base64_encode prints b64_encode of the array behind the handle, base64_decode of that
   text stores the same array under a fresh handle *)
Theorem Src_codeccmds_b64_roundtrip : forall rnd key bs rest rest' s,
  ht_get key (handles s) = Some (SBytes bs) -> bytes bs ->
  cmd_base64_encode (key :: rest) s = (CVal (b64_encode bs), s) /\
  exists key' s1, cmd_base64_decode rnd (b64_encode bs :: rest') s = (CVal key', s1) /\
                  ht_get key' (handles s1) = Some (SBytes bs).
Proof. exact cmds_b64_roundtrip. Qed.
Print Assumptions Src_codeccmds_b64_roundtrip.

(* C17_text_b64 through the four commands *)
Theorem Src_codeccmds_text_b64_roundtrip : forall rnd text s, forallb scalar text = true ->
  exists k1 s1 k2 s2,
    cmd_string_to_bytes rnd [text] s = (CVal k1, s1) /\
    cmd_base64_encode [k1] s1 = (CVal (b64_encode (utf8_encode text)), s1) /\
    cmd_base64_decode rnd [b64_encode (utf8_encode text)] s1 = (CVal k2, s2) /\
    cmd_bytes_to_string [k2] s2 = (CVal text, s2).
Proof. exact cmds_text_b64_roundtrip. Qed.
Print Assumptions Src_codeccmds_text_b64_roundtrip.
