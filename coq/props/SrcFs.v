(* SrcFs — the command layer of the C18 model IS the current source.
   The gen_cmd_* functions are regenerated on every run from the `run` functions (impl Command for CommandImpl) of
   duckscript_sdk/src/sdk/std/fs/{touch, mkdir, rmdir, exists, is_file, is_directory, get_file_size, read_text, read_bytes,
   write_text, append, write_bytes, rm, cp, mv}/mod.rs, with the helpers of duckscript_sdk/src/utils/io.rs inlined, by the
   translator lib/rs2v.py (class FnFs; lib/gen/fs_gen.py).  FsCmd.v holds the command layer: a command checks its argument
   count, reads its arguments as paths / text / a handle, and performs ONE history step FsTree.M_step — the step function
   props/C18.v reasons about.  Each theorem: for every environment E (how path texts resolve, what the handles sub-state
   holds, how directory sources behave), every argument vector and every tree, the translation of the current source
   equals Some (that step's output and tree).  The translation's None is "the function unwinds" (each `arguments[i]` is an
   explicit None arm), so each theorem also says no argument vector makes `run` panic on an index.  Each theorem is stated
   under the flag of its own command (stub and `false` when the translator does not understand that command any more).

   Modelling assumptions of the translation (lib/gen/fs_gen.py): the primitives of fsio / std::fs / fs_extra / Path are
   the tree operations of FsTree.v section 1 (ensure_exists = f_ensure_exists, write_file / append_file = f_modify_file,
   read_text_file = p_read + utf8_decode, read_file = p_read, directory::create = f_dir_create, create_parent =
   f_create_parent, remove_file / remove_dir / remove_dir_all = p_remove_*, copy = p_copy, canonicalize = p_canonicalize,
   move_file = x_move_file, move_items = x_move_items, metadata = stat, exists / is_file / is_dir = p_*, extension =
   has_ext, ends_with_separator = ends_sep, is_unix_flags_argument / is_unix_flag_exists('r') = is_unix_flags / flag_r,
   as_bytes = utf8_encode; rename / dir::copy / move_dir of directories are arbitrary functions); error message TEXTS are
   erased (one error kind); put_handle of a byte array is OBytes, the handles sub-state is E's handle_of.
   The correspondence run of C18 validates these on real directories.  Property theorems only. *)
From Coq Require Import NArith List.
Require Import DS.FsTree DS.Rs2vFsLib DS.FsCmd DS.FsGenTie.
Require Import DSG.GenFsFn.

Theorem Src_fs_touch : gen_cmd_touch_understood = true ->
  forall E args t, gen_cmd_touch E args t = Some (cmd_touch E args t).
Proof. exact gen_cmd_touch_eq. Qed.
Print Assumptions Src_fs_touch.

Theorem Src_fs_mkdir : gen_cmd_mkdir_understood = true ->
  forall E args t, gen_cmd_mkdir E args t = Some (cmd_mkdir E args t).
Proof. exact gen_cmd_mkdir_eq. Qed.
Print Assumptions Src_fs_mkdir.

Theorem Src_fs_rmdir : gen_cmd_rmdir_understood = true ->
  forall E args t, gen_cmd_rmdir E args t = Some (cmd_rmdir E args t).
Proof. exact gen_cmd_rmdir_eq. Qed.
Print Assumptions Src_fs_rmdir.

Theorem Src_fs_exists : gen_cmd_exists_understood = true ->
  forall E args t, gen_cmd_exists E args t = Some (cmd_exists E args t).
Proof. exact gen_cmd_exists_eq. Qed.
Print Assumptions Src_fs_exists.

Theorem Src_fs_is_file : gen_cmd_is_file_understood = true ->
  forall E args t, gen_cmd_is_file E args t = Some (cmd_is_file E args t).
Proof. exact gen_cmd_is_file_eq. Qed.
Print Assumptions Src_fs_is_file.

Theorem Src_fs_is_dir : gen_cmd_is_dir_understood = true ->
  forall E args t, gen_cmd_is_dir E args t = Some (cmd_is_dir E args t).
Proof. exact gen_cmd_is_dir_eq. Qed.
Print Assumptions Src_fs_is_dir.

Theorem Src_fs_size : gen_cmd_size_understood = true ->
  forall E args t, gen_cmd_size E args t = Some (cmd_size E args t).
Proof. exact gen_cmd_size_eq. Qed.
Print Assumptions Src_fs_size.

Theorem Src_fs_read : gen_cmd_read_understood = true ->
  forall E args t, gen_cmd_read E args t = Some (cmd_read E args t).
Proof. exact gen_cmd_read_eq. Qed.
Print Assumptions Src_fs_read.

Theorem Src_fs_readb : gen_cmd_readb_understood = true ->
  forall E args t, gen_cmd_readb E args t = Some (cmd_readb E args t).
Proof. exact gen_cmd_readb_eq. Qed.
Print Assumptions Src_fs_readb.

Theorem Src_fs_write : gen_cmd_write_understood = true ->
  forall E args t, gen_cmd_write E args t = Some (cmd_write E args t).
Proof. exact gen_cmd_write_eq. Qed.
Print Assumptions Src_fs_write.

Theorem Src_fs_append : gen_cmd_append_understood = true ->
  forall E args t, gen_cmd_append E args t = Some (cmd_append E args t).
Proof. exact gen_cmd_append_eq. Qed.
Print Assumptions Src_fs_append.

Theorem Src_fs_writeb : gen_cmd_writeb_understood = true ->
  forall E args t, gen_cmd_writeb E args t = Some (cmd_writeb E args t).
Proof. exact gen_cmd_writeb_eq. Qed.
Print Assumptions Src_fs_writeb.

Theorem Src_fs_rm : gen_cmd_rm_understood = true ->
  forall E args t, gen_cmd_rm E args t = Some (cmd_rm E args t).
Proof. exact gen_cmd_rm_eq. Qed.
Print Assumptions Src_fs_rm.

Theorem Src_fs_cp : gen_cmd_cp_understood = true ->
  forall E args t, gen_cmd_cp E args t = Some (cmd_cp E args t).
Proof. exact gen_cmd_cp_eq. Qed.
Print Assumptions Src_fs_cp.

Theorem Src_fs_mv : gen_cmd_mv_understood = true ->
  forall E args t, gen_cmd_mv E args t = Some (cmd_mv E args t).
Proof. exact gen_cmd_mv_eq. Qed.
Print Assumptions Src_fs_mv.

