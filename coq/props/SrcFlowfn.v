(* SrcFlowfn — the function-command models the C05 theorems are about ARE the current source.
   The gen_* functions are regenerated on every run from duckscript_sdk/src/sdk/std/flowcontrol/function/mod.rs
   (push_to_call_stack, pop_from_call_stack, run_call, `run` of FunctionCommand / EndFunctionCommand / ReturnCommand, with
   store_fn_info_in_state / get_fn_info_from_state inlined) by the translator lib/rs2v.py (classes PFlowfn / FnFlowfn;
   lib/gen/flowfn_gen.py); FlowFn.v holds the hand-written machine (step_function, step_call, step_endfn, step_return) that
   props/C05.v reasons about.  Each theorem is stated under the flag of its own function (stub and `false` when the
   translator does not understand that function any more).

   [xlift lcn g]: the Rust CallInfo carries line_context_name, FlowFn.v omits it (constant in the C05 domain); the
   translation keeps it, and every theorem holds for all states in which the frames on the stack carry the current
   context name lcn (any lcn).  run_call: at most nine arguments (FlowFn.idx_name renders the index with one digit).
   `context.arguments[i]` is an explicit RPanic arm of the translation: the [_no_panic] theorems say it is never taken.

   Modelling assumptions of the translation (lib/gen/flowfn_gen.py): `context.state` is the typed (flow, meta info table,
   call stack, scope stack) of FlowFn.v — WHICH string key / StateValue variant holds which field is not assumed but read
   by executing the serialisers against the deserialisers (Src_flowfn_pop_push); find_commands, utils::scope::push / pop,
   end::set_command are the model's functions (tied separately: "findcmds", "var"); annotation::parse and the current
   line context name are parameters; registering the call command succeeds and is the meta-info entry; a GoTo's output
   value is the runner's business; usize on nat; message texts are erased to the model's codes.  Property theorems only. *)
Require Import DS.Base DS.Cond DS.FlowTables DS.FlowScan DS.Flow DS.FlowFn DS.FlowFnC DS.FlowfnGenLib DS.FlowfnGenTie.
Require Import DSG.GenFlowNames DSG.GenFnNames DSG.GenFlowfnFn.
Local Open Scope nat_scope.

(* ---- the call stack: a typed stack of CallInfo records -------------------------------------------------------------- *)
Theorem Src_flowfn_push : gen_push_to_call_stack_understood = true ->
  forall c g, gen_push_to_call_stack c g = x_push c g.
Proof. exact gen_push_to_call_stack_eq. Qed.
Print Assumptions Src_flowfn_push.

Theorem Src_flowfn_pop : gen_pop_from_call_stack_understood = true ->
  forall g, gen_pop_from_call_stack g = x_pop g.
Proof. exact gen_pop_from_call_stack_eq. Qed.
Print Assumptions Src_flowfn_pop.

(* the deserialiser reads back exactly what the serialiser wrote, for every CallInfo *)
Theorem Src_flowfn_pop_push : gen_push_to_call_stack_understood = true -> gen_pop_from_call_stack_understood = true ->
  forall c g, gen_pop_from_call_stack (gen_push_to_call_stack c g) = (Some c, g).
Proof. exact gen_pop_push. Qed.
Print Assumptions Src_flowfn_pop_push.

(* ---- fn ------------------------------------------------------------------------------------------------------------ *)
Theorem Src_flowfn_function : gen_function_run_understood = true ->
  forall ann cmds line args lcn w f g,
    gen_function_run ann cmds line args (w, f, xlift lcn g) = xlift_r lcn (function_model ann cmds line args (w, f, g)).
Proof. exact gen_function_run_eq. Qed.
Print Assumptions Src_flowfn_function.

(* .. which is FlowFn.step_function on the decoded instruction *)
Theorem Src_flowfn_function_step : gen_function_run_understood = true ->
  forall ann P line args name scoped lcn w f g, fn_decode ann args = Some (name, scoped) ->
    gen_function_run ann (fcmds P) line args (w, f, xlift lcn g) = xlift_r lcn (step_function P line scoped name (w, f, g)).
Proof. exact gen_function_run_step. Qed.
Print Assumptions Src_flowfn_function_step.

(* ---- the call command ---------------------------------------------------------------------------------------------- *)
Theorem Src_flowfn_run_call : gen_run_call_understood = true ->
  forall lcn name vals out line w f g, length vals <= 9 ->
    gen_run_call lcn name vals out line (w, f, xlift lcn g) = xlift_r lcn (run_call_m name vals out line (w, f, g)).
Proof. exact gen_run_call_eq. Qed.
Print Assumptions Src_flowfn_run_call.

(* .. and FlowFn.step_call is run_call on the expanded arguments followed by the runner's update_output *)
Theorem Src_flowfn_call_step : gen_run_call_understood = true ->
  forall lcn line out name args w f g, length args <= 9 -> aget str_eqb name (fs_meta g) <> None ->
    xlift_r lcn (step_call line out name args (w, f, g)) =
    call_post_x out (gen_run_call lcn name (map (fun a => arg_val a w) args) out line (w, f, xlift lcn g)).
Proof. exact gen_run_call_step. Qed.
Print Assumptions Src_flowfn_call_step.

(* .. and the call made while a condition is evaluated (FlowFnC.step_call_eval, the machine of C05_sim_cond) is run_call *)
Theorem Src_flowfn_call_eval_step : gen_run_call_understood = true ->
  forall lcn line out name args w f g, length args <= 9 -> aget str_eqb name (fs_meta g) <> None ->
    xlift_r lcn (step_call_eval line out name args (w, f, g)) =
    gen_run_call lcn name (map (fun a => arg_val a w) args) out line (w, f, xlift lcn g).
Proof. exact gen_run_call_eval_step. Qed.
Print Assumptions Src_flowfn_call_eval_step.

(* ---- end_fn -------------------------------------------------------------------------------------------------------- *)
Theorem Src_flowfn_end_function : gen_end_function_run_understood = true ->
  forall lcn line w f g, gen_end_function_run lcn line (w, f, xlift lcn g) = xlift_r lcn (step_endfn line (w, f, g)).
Proof. exact gen_end_function_run_eq. Qed.
Print Assumptions Src_flowfn_end_function.

(* ---- return -------------------------------------------------------------------------------------------------------- *)
Theorem Src_flowfn_return : gen_return_run_understood = true ->
  forall lcn line args w f g,
    gen_return_run lcn line args (w, f, xlift lcn g) = xlift_r lcn (step_return_v line (hd_error args) (w, f, g)).
Proof. exact gen_return_run_eq. Qed.
Print Assumptions Src_flowfn_return.

Theorem Src_flowfn_return_step : gen_return_run_understood = true ->
  forall lcn line args a w f g, hd_error args = option_map (fun x => arg_val x w) a ->
    gen_return_run lcn line args (w, f, xlift lcn g) = xlift_r lcn (step_return line a (w, f, g)).
Proof. exact gen_return_run_step. Qed.
Print Assumptions Src_flowfn_return_step.

(* ---- no panic: the `context.arguments[i]` arms of the translations are dead -------------------------------------------- *)
Theorem Src_flowfn_function_no_panic : gen_function_run_understood = true ->
  forall ann cmds line args lcn w f g, fst (gen_function_run ann cmds line args (w, f, xlift lcn g)) <> RPanic.
Proof. exact gen_function_run_no_panic. Qed.
Print Assumptions Src_flowfn_function_no_panic.

Theorem Src_flowfn_return_no_panic : gen_return_run_understood = true ->
  forall lcn line args w f g, fst (gen_return_run lcn line args (w, f, xlift lcn g)) <> RPanic.
Proof. exact gen_return_run_no_panic. Qed.
Print Assumptions Src_flowfn_return_no_panic.

Theorem Src_flowfn_end_function_no_panic : gen_end_function_run_understood = true ->
  forall lcn line w f g, fst (gen_end_function_run lcn line (w, f, xlift lcn g)) <> RPanic.
Proof. exact gen_end_function_run_no_panic. Qed.
Print Assumptions Src_flowfn_end_function_no_panic.

Theorem Src_flowfn_run_call_no_panic : gen_run_call_understood = true ->
  forall lcn name vals out line w f g, length vals <= 9 ->
    fst (gen_run_call lcn name vals out line (w, f, xlift lcn g)) <> RPanic.
Proof. exact gen_run_call_no_panic. Qed.
Print Assumptions Src_flowfn_run_call_no_panic.

(* ---- the scope push / pop the translations call (association lists) are utils/scope.rs's (Scope.v, tie "var") ---------- *)
Require DS.Scope DS.FlowfnScopeLink.
Theorem Src_flowfn_scope_push : forall copy vs scopes,
  Scope.m_push (Scope.MS (FlowfnScopeLink.gm vs) (map FlowfnScopeLink.gm scopes)) copy =
  Scope.MS (FlowfnScopeLink.gm (fst (fl_scope_push copy vs scopes))) (map FlowfnScopeLink.gm (snd (fl_scope_push copy vs scopes))).
Proof. exact FlowfnScopeLink.fl_scope_push_m_push. Qed.
Print Assumptions Src_flowfn_scope_push.

Theorem Src_flowfn_scope_pop : forall copy vs scopes,
  Scope.m_pop (Scope.MS (FlowfnScopeLink.gm vs) (map FlowfnScopeLink.gm scopes)) copy =
  match fl_scope_pop copy vs scopes with
  | None => (Scope.OErr, Scope.MS (FlowfnScopeLink.gm vs) (map FlowfnScopeLink.gm scopes))
  | Some (v', sc') => (Scope.OVal Scope.lit_true, Scope.MS (FlowfnScopeLink.gm v') (map FlowfnScopeLink.gm sc'))
  end.
Proof. exact FlowfnScopeLink.fl_scope_pop_m_pop. Qed.
Print Assumptions Src_flowfn_scope_pop.
