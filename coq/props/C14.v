(* C14 — Including files is equivalent to pasting them in place, with provenance kept.
   Property theorems only; every proof is [exact <lemma>].

   [fs] (file contents; None = read_text_file fails) and [resolve] (path string computed for a
   relative include argument: parent(source) joined with the argument, canonicalised when the OS
   can) are universally quantified: the theorems hold for every file system and every path
   resolution.  That the OS behaves like the [resolve] handed to the extracted model is tied by the
   correspondence run only (path resolution: partial).

   Pasting is defined on LINE LISTS ([inline_t] : the lines of the file as str::lines yields them,
   each followed — when it is an `!include_files a b c` directive — by the pasted lines of a, b, c),
   and the text-level statement re-joins them with LF ([unlines]).  This is what makes the statement
   true for files that do not end with a newline (the next pasted line must not be glued to the
   unterminated one) and for CRLF files (str::lines strips one CR; a remaining CR is white space
   that parse_line trims: lemma trim_chomp). *)
Require Import DS.Base DS.Parser DS.Include DS.IncludeProof.

Section C14.
Variable fs : path -> option str.
Variable resolve : option path -> str -> path.

(* the parse of a file is the line-by-line parse of its pasting, every line with its own origin
   (master statement; fuel, missing files and malformed lines included) *)
Theorem C14_flat : forall f p, parse_file fs resolve f p = parse_x (inline_x fs resolve f p).
Proof. exact (parse_file_x fs resolve). Qed.

(* PASTE.  Whenever every listed file can be read (within the include depth f), parsing the file
   and parsing the pasted TEXT give the same instructions up to positions, the directive standing
   for a comment line, and the same error kind when a line is malformed. *)
Theorem C14_paste : forall f p tl,
  inline_t fs resolve f p = Some tl ->
  erase (parse_file fs resolve f p) = erase (parse_text (unlines (map pasted tl))).
Proof. exact (paste fs resolve). Qed.

(* the hypothesis of C14_paste holds for every acyclic tree of readable files *)
Theorem C14_paste_defined : forall f p,
  within fs resolve f p -> (forall q, reach fs resolve p q -> fs q <> None) ->
  exists tl, inline_t fs resolve f p = Some tl.
Proof. exact (inline_t_exists fs resolve). Qed.

(* fuel is a proof device: any fuel at least the depth of the tree gives the same result *)
Theorem C14_fuel : forall f p k,
  within fs resolve f p -> parse_file fs resolve (f + k) p = parse_file fs resolve f p.
Proof. exact (parse_file_fuel fs resolve). Qed.

(* PROVENANCE.  Every instruction carries a file q reachable through directives and a line number
   such that that line of q, parsed on its own, is the instruction. *)
Theorem C14_prov : forall f p is,
  parse_file fs resolve f p = TOk is ->
  Forall (fun i => exists q line,
            i_source i = Some q /\ reach fs resolve p q /\ line_at fs q (i_line i) line /\
            line_res line = POk (i_type i)) is.
Proof. exact (parse_file_prov fs resolve). Qed.

(* ... and the k-th instruction comes from the k-th pasted line *)
Theorem C14_prov_order : forall f p is,
  parse_file fs resolve f p = TOk is ->
  exists tl, inline_t fs resolve f p = Some tl /\ map origin is = map torigin tl /\
             Forall2 (fun t i => line_res (t_text t) = POk (i_type i)) tl is.
Proof. exact (parse_file_ok_inline fs resolve). Qed.

(* FAILURE, soundness of the report: a failed parse names a reachable file that cannot be read
   (line 0), or the file and line of a malformed line with its error kind; running out of fuel
   is impossible within the depth of the tree *)
Theorem C14_fail : forall f p e l s,
  parse_file fs resolve f p = TErr e l s ->
  exists q, s = Some q /\ reach fs resolve p q /\
    ((e = EReadFile /\ l = 0 /\ fs q = None) \/
     (e = EFuel /\ l = 0 /\ ~ within fs resolve f p) \/
     (exists line, line_at fs q l line /\ line_res line = PErr e)).
Proof. exact (parse_file_err fs resolve). Qed.

(* FAILURE, completeness: an unreadable file or a malformed line anywhere in the tree fails the
   whole parse *)
Theorem C14_fail_anywhere : forall f p q,
  reach fs resolve p q ->
  (fs q = None \/ exists n line e, line_at fs q n line /\ line_res line = PErr e) ->
  exists e l s, parse_file fs resolve f p = TErr e l s.
Proof. exact (parse_file_fail_complete fs resolve). Qed.

End C14.

(* non-vacuity: a two-level tree (main includes a.ds twice and b.ds; b.ds includes a.ds through a
   relative path) parses with fuel 3 to 7 instructions and pastes to 7 lines *)
Definition ex_main : str := [109]. Definition ex_a : str := [97]. Definition ex_b : str := [98].
Definition ex_fs (p : path) : option str :=
  if str_eqb p ex_main then Some ([120;10] ++ [33] ++ s_include_files ++ [32;97;32;98;32;97;10;121])
  else if str_eqb p ex_a then Some [122;32;61;32;115;10]
  else if str_eqb p ex_b then Some ([33] ++ s_include_files ++ [32;97;13;10])
  else None.
Definition ex_resolve (_ : option path) (a : str) : path := a.
Theorem C14_nonvacuous :
  (exists is, parse_file ex_fs ex_resolve 3 ex_main = TOk is /\ length is = 7%nat) /\
  (exists tl, inline_t ex_fs ex_resolve 3 ex_main = Some tl /\ length tl = 7%nat).
Proof. split; eexists; split; vm_compute; reflexivity. Qed.
