(* C14 — Including files is equivalent to pasting them in place, with provenance kept.
   Property theorems only; every proof is [exact <lemma>].

   [fs] (file contents; None = read_text_file fails) and [resolve] (path string computed for a
   relative include argument: parent(source) joined with the argument, canonicalised when the OS
   can) are universally quantified: the theorems hold for every file system and every path
   resolution.  That the OS behaves like the [resolve] handed to the extracted model is tied by the
   correspondence run only (path resolution: partial).

   Pasting is defined on LINE LISTS ([inline_t] : the lines of the file as str::lines yields them,
   each followed — when it is an `!include_files a b c` directive — by the pasted lines of a, b, c),
   and the text-level statement re-joins them with LF ([unlines]).  This is what makes the statement
   true for files that do not end with a newline (the next pasted line must not be glued to the
   unterminated one) and for CRLF files (str::lines strips one CR; a remaining CR is white space
   that parse_line trims: lemma trim_chomp). *)
Require Import DS.Base DS.Parser DS.Include DS.IncludeProof.

Section C14.
Variable fs : path -> option str.
Variable resolve : option path -> str -> path.

(* the parse of a file is the line-by-line parse of its pasting, every line with its own origin
   (master statement; fuel, missing files and malformed lines included) *)
Theorem C14_flat : forall f p, parse_file fs resolve f p = parse_x (inline_x fs resolve f p).
Proof. exact (parse_file_x fs resolve). Qed.

(* PASTE.  Whenever every listed file can be read (within the include depth f), parsing the file
   and parsing the pasted TEXT give the same instructions up to positions, the directive standing
   for a comment line, and the same error kind when a line is malformed. *)
Theorem C14_paste : forall f p tl,
  inline_t fs resolve f p = Some tl ->
  erase (parse_file fs resolve f p) = erase (parse_text (unlines (map pasted tl))).
Proof. exact (paste fs resolve). Qed.

(* the hypothesis of C14_paste holds for every acyclic tree of readable files *)
Theorem C14_paste_defined : forall f p,
  within fs resolve f p -> (forall q, reach fs resolve p q -> fs q <> None) ->
  exists tl, inline_t fs resolve f p = Some tl.
Proof. exact (inline_t_exists fs resolve). Qed.

(* fuel is a proof device: any fuel at least the depth of the tree gives the same result *)
Theorem C14_fuel : forall f p k,
  within fs resolve f p -> parse_file fs resolve (f + k) p = parse_file fs resolve f p.
Proof. exact (parse_file_fuel fs resolve). Qed.

(* PROVENANCE.  Every instruction carries a file q reachable through directives and a line number
   such that that line of q, parsed on its own, is the instruction. *)
Theorem C14_prov : forall f p is,
  parse_file fs resolve f p = TOk is ->
  Forall (fun i => exists q line,
            i_source i = Some q /\ reach fs resolve p q /\ line_at fs q (i_line i) line /\
            line_res line = POk (i_type i)) is.
Proof. exact (parse_file_prov fs resolve). Qed.

(* ... and the k-th instruction comes from the k-th pasted line *)
Theorem C14_prov_order : forall f p is,
  parse_file fs resolve f p = TOk is ->
  exists tl, inline_t fs resolve f p = Some tl /\ map origin is = map torigin tl /\
             Forall2 (fun t i => line_res (t_text t) = POk (i_type i)) tl is.
Proof. exact (parse_file_ok_inline fs resolve). Qed.

(* FAILURE, soundness of the report: a failed parse names a reachable file that cannot be read
   (line 0), or the file and line of a malformed line with its error kind; running out of fuel
   is impossible within the depth of the tree *)
Theorem C14_fail : forall f p e l s,
  parse_file fs resolve f p = TErr e l s ->
  exists q, s = Some q /\ reach fs resolve p q /\
    ((e = EReadFile /\ l = 0 /\ fs q = None) \/
     (e = EFuel /\ l = 0 /\ ~ within fs resolve f p) \/
     (exists line, line_at fs q l line /\ line_res line = PErr e)).
Proof. exact (parse_file_err fs resolve). Qed.

(* FAILURE, completeness: an unreadable file or a malformed line anywhere in the tree fails the
   whole parse *)
Theorem C14_fail_anywhere : forall f p q,
  reach fs resolve p q ->
  (fs q = None \/ exists n line e, line_at fs q n line /\ line_res line = PErr e) ->
  exists e l s, parse_file fs resolve f p = TErr e l s.
Proof. exact (parse_file_fail_complete fs resolve). Qed.

End C14.

(* non-vacuity: a two-level tree (main includes a.ds twice and b.ds; b.ds includes a.ds through a
   relative path) parses with fuel 3 to 7 instructions and pastes to 7 lines *)
Definition ex_main : str := [109]. Definition ex_a : str := [97]. Definition ex_b : str := [98].
Definition ex_fs (p : path) : option str :=
  if str_eqb p ex_main then Some ([120;10] ++ [33] ++ s_include_files ++ [32;97;32;98;32;97;10;121])
  else if str_eqb p ex_a then Some [122;32;61;32;115;10]
  else if str_eqb p ex_b then Some ([33] ++ s_include_files ++ [32;97;13;10])
  else None.
Definition ex_resolve (_ : option path) (a : str) : path := a.
Theorem C14_nonvacuous :
  (exists is, parse_file ex_fs ex_resolve 3 ex_main = TOk is /\ length is = 7%nat) /\
  (exists tl, inline_t ex_fs ex_resolve 3 ex_main = Some tl /\ length tl = 7%nat).
Proof. split; eexists; split; vm_compute; reflexivity. Qed.

(* =================================================================================================
   PATH RESOLUTION (appended).  Include.v's [resolve] instantiated with the lexical model of
   IncludePath.v: [resolve canon] = PathBuf::from(source).parent() / push(argument), then
   std::fs::canonicalize when the OS can ([canon], the only remaining parameter: it needs the
   directory tree, the current directory and the symbolic links), the plain join otherwise.
   Every theorem above holds for [resolve canon] (they are stated for every [resolve]).
   '/' = c_slash.  [plain file]: a non-empty name without '/', other than ".".
   [clean_dir dir]: the directory part does not end with '/' or a "/." component (sufficient:
   it ends with a character other than '/' and '.', C14_clean_dir_last).
   ================================================================================================= *)
Require Import DS.IncludePath DS.IncludePathProof.

(* Path::parent is total: the fuel of its two loops is never exhausted *)
Theorem C14_parent_total : forall s, parent s <> PFuel.
Proof. exact parent_total. Qed.
(* ... and yields a proper prefix of the path string *)
Theorem C14_parent_prefix : forall s d, parent s = PSome d -> exists t, s = d ++ t /\ t <> [].
Proof. exact parent_prefix. Qed.
(* the parent of "<dir>/<file>" is <dir> without trailing separators / "/." components *)
Theorem C14_parent_dir_file : forall d f, d <> [] -> plain f = true -> parent (d ++ c_slash :: f) = PSome (trim_dir d).
Proof. exact parent_dir_file. Qed.
Theorem C14_trim_dir_clean : forall d, clean_dir d = true -> trim_dir d = d.
Proof. exact trim_dir_clean. Qed.
Theorem C14_clean_dir_last : forall d c, is_sep c = false -> (c =? c_dot)%N = false -> clean_dir (d ++ [c]) = true.
Proof. exact clean_dir_last. Qed.

(* RELATIVE paths are resolved against the including file's directory:
   "<dir>/<file>" including "rel" opens "<dir>/rel" (canonicalised when the OS can) *)
Theorem C14_resolve_relative : forall canon dir file rel,
  dir <> [] -> dir <> [c_slash] -> clean_dir dir = true -> plain file = true -> is_abs rel = false ->
  include_path (resolve canon) (Some (dir ++ c_slash :: file)) rel = or_canon canon (dir ++ c_slash :: rel).
Proof. exact resolve_relative. Qed.
(* ... for every spelling of the directory part ("lib/", "lib//", "lib/.": the join starts from "lib") *)
Theorem C14_resolve_relative_any : forall canon dir file rel,
  dir <> [] -> plain file = true -> is_abs rel = false ->
  include_path (resolve canon) (Some (dir ++ c_slash :: file)) rel = or_canon canon (push (trim_dir dir) rel).
Proof. exact resolve_relative_any. Qed.
(* ABSOLUTE arguments (leading '/' or '\') are used as written, whatever the source *)
Theorem C14_resolve_absolute : forall canon src a, is_abs a = true -> include_path (resolve canon) src a = a.
Proof. exact resolve_absolute. Qed.
(* corner cases *)
Theorem C14_resolve_no_source : forall canon a, include_path (resolve canon) None a = a.
Proof. exact resolve_no_source. Qed.
Theorem C14_resolve_no_dir : forall canon file rel, plain file = true -> is_abs rel = false ->
  include_path (resolve canon) (Some file) rel = or_canon canon rel.
Proof. exact resolve_no_dir. Qed.
Theorem C14_resolve_root : forall canon file rel, plain file = true -> is_abs rel = false ->
  include_path (resolve canon) (Some (c_slash :: file)) rel = or_canon canon (c_slash :: rel).
Proof. exact resolve_root. Qed.
Theorem C14_resolve_no_parent : forall canon value a, parent value = PNone ->
  include_path (resolve canon) (Some value) a = a.
Proof. exact resolve_no_parent. Qed.
(* when canonicalize fails, the plain join is what parse_file is given and what ErrorReadingFile names *)
Theorem C14_resolve_canon_fails : forall canon value d a, is_abs a = false -> parent value = PSome d ->
  canon (push d a) = None -> include_path (resolve canon) (Some value) a = push d a.
Proof. exact resolve_canon_fails. Qed.
(* a canonicalize that names the same file does not change which contents are read *)
Theorem C14_resolve_reads : forall canon (fs : path -> option str) value a,
  (forall p c, canon p = Some c -> fs c = fs p) ->
  fs (include_path (resolve canon) (Some value) a) = fs (if is_abs a then a else lex_join value a).
Proof. exact resolve_reads. Qed.
(* PathBuf::push with an absolute right side replaces the buffer *)
Theorem C14_push_absolute : forall d a, has_physical_root a = true -> push d a = a.
Proof. exact push_absolute. Qed.
(* Path::parent / PathBuf::push on the corner spellings: "", "/", "//", "/.", "a", ".", "..", "./",
   "a/.", "a/b/", "a//b", "a/./b", "./a", "//a", "a/../b", "a/.." *)
Theorem C14_parent_corners :
  parent [] = PNone /\ parent [c_slash] = PNone /\ parent [c_slash; c_slash] = PNone /\
  parent [c_slash; c_dot] = PNone /\
  parent s_a = PSome [] /\ parent s_dot = PSome [] /\ parent s_dotdot = PSome [] /\
  parent [c_dot; c_slash] = PSome [] /\
  parent (s_a ++ [c_slash; c_dot]) = PSome [] /\
  parent (s_a ++ c_slash :: s_b ++ [c_slash]) = PSome s_a /\
  parent (s_a ++ c_slash :: c_slash :: s_b) = PSome s_a /\
  parent (s_a ++ c_slash :: c_dot :: c_slash :: s_b) = PSome s_a /\
  parent (c_dot :: c_slash :: s_a) = PSome s_dot /\
  parent (c_slash :: c_slash :: s_a) = PSome [c_slash] /\
  parent (s_a ++ c_slash :: s_dotdot ++ c_slash :: s_b) = PSome (s_a ++ c_slash :: s_dotdot) /\
  parent (s_a ++ c_slash :: s_dotdot) = PSome s_a.
Proof. exact parent_corners. Qed.
Theorem C14_push_corners :
  push s_a [] = s_a ++ [c_slash] /\
  push [c_slash] s_b = c_slash :: s_b /\
  push s_a (c_slash :: s_b) = c_slash :: s_b /\
  push s_dot s_b = c_dot :: c_slash :: s_b /\
  push (s_a ++ c_slash :: s_dotdot) s_b = s_a ++ c_slash :: s_dotdot ++ c_slash :: s_b.
Proof. exact push_corners. Qed.

(* non-vacuity with the lexical resolve: "lib/b" includes "a" and "../m"; with a canonicalize that
   always fails the files opened are the plain joins "lib/a" and "lib/../m" *)
Definition ex2_b : str := [108;105;98;47;98]. Definition ex2_a : str := [108;105;98;47;97].
Definition ex2_m : str := [108;105;98;47;46;46;47;109].
Definition ex2_fs (p : path) : option str :=
  if str_eqb p ex2_b then Some ([33] ++ s_include_files ++ [32;97;32;46;46;47;109;10])
  else if str_eqb p ex2_a then Some [120;10]
  else if str_eqb p ex2_m then Some [121;10]
  else None.
Theorem C14_resolve_nonvacuous :
  exists i0 i1 i2, parse_file ex2_fs (resolve (fun _ => None)) 2 ex2_b = TOk [i0; i1; i2] /\
    i_source i0 = Some ex2_b /\ i_source i1 = Some ex2_a /\ i_source i2 = Some ex2_m.
Proof. do 3 eexists. split; [vm_compute; reflexivity|]. repeat split. Qed.
