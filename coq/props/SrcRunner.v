(* SrcRunner — the runner the C03 / C10 / C13 theorems are about IS the current source.
   gen_update_output / gen_labels_from / gen_label_table / gen_run_on_error / gen_run_instruction / gen_step /
   gen_run_loop_with are regenerated on every run from duckscript/src/runner.rs (update_output, create_runtime,
   run_on_error_instruction, run_instruction, the `loop` of run_instructions) by the translator lib/rs2v.py
   (lib/gen/runner_gen.py); Runner.update_output / labels_from / label_table / run_on_error / run_instruction /
   step / loop / run are the hand-written model functions C03, C10 and C13 reason about.  Each theorem is stated
   under the flag of its own function.  Property theorems only (proofs: theories/RunnerGenTie.v). *)
From stdpp Require Import gmap.
Require Import DS.Base DS.Runner DS.Rs2vLib3 DS.RunnerGenTie.
Require Import DSG.GenRunnerFn.

(* ONE iteration of the `loop` of run_instructions — halt poll, fetch with bounds test, run_instruction, the five
   result arms, and what follows the loop on every `break` — for every command behaviour, program, label table
   and configuration *)
Theorem Src_runner_step : gen_runner_step_understood = true ->
  forall (cstate : Type) (exists_cmd : cstate -> str -> bool)
         (cmd : str -> inv -> world cstate -> result * world cstate) (ext : nat -> bool) prog lt c,
    gen_step cstate exists_cmd cmd ext prog lt c = step cstate exists_cmd cmd ext prog lt c.
Proof. exact gen_step_eq. Qed.
Print Assumptions Src_runner_step.

(* the loop itself (explicit fuel), from any start line *)
Theorem Src_runner_loop : gen_runner_step_understood = true ->
  forall (cstate : Type) (exists_cmd : cstate -> str -> bool)
         (cmd : str -> inv -> world cstate -> result * world cstate) (ext : nat -> bool) prog lt fuel start w,
    gen_run_loop_with cstate ext (run_instruction cstate exists_cmd cmd) (run_on_error cstate exists_cmd cmd)
                      prog lt fuel start w
    = loop cstate exists_cmd cmd ext prog lt fuel (Config start w 0 []).
Proof. exact gen_run_loop_eq. Qed.
Print Assumptions Src_runner_loop.

(* runner.rs `run`: create_runtime, then the loop from line 0 *)
Theorem Src_runner_run : gen_runner_step_understood = true -> gen_labels_from_understood = true ->
  forall (cstate : Type) (exists_cmd : cstate -> str -> bool)
         (cmd : str -> inv -> world cstate -> result * world cstate) (ext : nat -> bool) fuel p w,
    gen_run_loop_with cstate ext (run_instruction cstate exists_cmd cmd) (run_on_error cstate exists_cmd cmd)
                      p (gen_label_table p) fuel 0 w
    = run cstate exists_cmd cmd ext fuel p w.
Proof. exact gen_run_eq. Qed.
Print Assumptions Src_runner_run.

(* update_output *)
Theorem Src_runner_update_output : gen_update_output_understood = true ->
  forall (cstate : Type) (w : world cstate) ov o, gen_update_output cstate w ov o = update_output w ov o.
Proof. exact gen_update_output_eq. Qed.
Print Assumptions Src_runner_update_output.

(* create_runtime: its `for` loop from any state, and the label table of the runtime it returns *)
Theorem Src_runner_labels_from : gen_labels_from_understood = true ->
  forall p line t, gen_labels_from p line t = labels_from p line t.
Proof. exact gen_labels_from_eq. Qed.
Print Assumptions Src_runner_labels_from.
Theorem Src_runner_label_table : gen_labels_from_understood = true ->
  forall p, gen_label_table p = label_table p.
Proof. exact gen_label_table_eq. Qed.
Print Assumptions Src_runner_label_table.

(* run_on_error_instruction: the source invokes the on_error command directly (arguments message / line or 0 /
   source or "", no output variable, line 0); the model goes through run_instruction on a synthetic instruction *)
Theorem Src_runner_run_on_error : gen_run_on_error_understood = true ->
  forall (cstate : Type) (exists_cmd : cstate -> str -> bool)
         (cmd : str -> inv -> world cstate -> result * world cstate) w msg m,
    gen_run_on_error cstate exists_cmd cmd w msg m = run_on_error cstate exists_cmd cmd w msg m.
Proof. exact gen_run_on_error_eq. Qed.
Print Assumptions Src_runner_run_on_error.

(* run_instruction, the arguments handed over as written (Runner.v abstracts the binding to the identity) *)
Theorem Src_runner_run_instruction : gen_run_instruction_understood = true ->
  forall (cstate : Type) (exists_cmd : cstate -> str -> bool)
         (cmd : str -> inv -> world cstate -> result * world cstate) w i line,
    gen_run_instruction cstate exists_cmd cmd (fun _ a => a) w i line = run_instruction cstate exists_cmd cmd w i line.
Proof. exact gen_run_instruction_eq. Qed.
Print Assumptions Src_runner_run_instruction.
