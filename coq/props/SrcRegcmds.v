(* SrcRegcmds — the script-level registry commands the C15_script_* theorems are about (Registry.sstep: alias, unalias,
   remove_command, is_command_defined) ARE the current source.  gen_cmd_alias / gen_cmd_unalias / gen_cmd_remove_command /
   gen_cmd_is_command_defined are regenerated on every run from the `run` functions of
   duckscript_sdk/src/sdk/std/{lib/alias/set, lib/alias/unset, lib/command/remove, is_command_defined}/mod.rs (and
   create_alias_command) by the translator lib/rs2v.py (lib/gen/regcmds_gen.py).  They return None when the command
   panics: the equalities say `Some`, so no `arguments[i]` / `arguments[1..]` of these commands can panic.
   Property theorems only. *)
From stdpp Require Import gmap list.
Require Import DS.Registry DS.RegistryGenLib DS.RegcmdsGenLib DS.RegcmdsGenTie.
Require Import DSG.GenRegcmdsFn.

(* is_command_defined <name> ...: unchanged state, the answer of Commands::exists on the first argument; no argument = error *)
Theorem Src_regcmds_is_command_defined : gen_cmd_is_command_defined_understood = true ->
  forall args s, gen_cmd_is_command_defined args s = Some (sstep s (SIsDefined args)).
Proof. exact gen_cmd_is_command_defined_eq. Qed.
Print Assumptions Src_regcmds_is_command_defined.

(* remove_command <name>: exactly one argument, the registry Commands::remove leaves and its answer *)
Theorem Src_regcmds_remove_command : gen_cmd_remove_command_understood = true ->
  forall args s, gen_cmd_remove_command args s = Some (sstep s (SRemoveCommand args)).
Proof. exact gen_cmd_remove_command_eq. Qed.
Print Assumptions Src_regcmds_remove_command.

(* unalias <name>: a name recorded by `alias` is removed as a command (and forgotten only when that removal answered true);
   any other name is dropped from the alias table of the registry when it is there *)
Theorem Src_regcmds_unalias : gen_cmd_unalias_understood = true ->
  forall args s, gen_cmd_unalias args s = Some (sstep s (SUnalias args)).
Proof. exact gen_cmd_unalias_eq. Qed.
Print Assumptions Src_regcmds_unalias.

(* alias <name> <command> [args..]: at least two arguments; Commands::set of a command with that name and no aliases; the
   name is recorded in the alias sub-state only when the registration was accepted; a refusal leaves everything alone *)
Theorem Src_regcmds_alias : gen_cmd_alias_understood = true ->
  forall args s, gen_cmd_alias args s = Some (sstep s (SAlias args)).
Proof. exact gen_cmd_alias_eq. Qed.
Print Assumptions Src_regcmds_alias.

(* whole histories: running the translations one after the other (the `fn` registration steps taken from the hand model)
   never panics and is Registry.srun — the machine C15_script_change / C15_script_inv / C15_script_refuse are about *)
Theorem Src_regcmds_srun : gen_regcmds_all_understood = true ->
  forall ops s, gen_srun s ops = Some (srun s ops).
Proof. exact gen_srun_eq. Qed.
Print Assumptions Src_regcmds_srun.
