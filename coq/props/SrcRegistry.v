(* SrcRegistry — the command registry the C15 theorems are about IS the current source.
   gen_set / gen_get / gen_exists / gen_get_for_use / gen_names / gen_remove are regenerated on every run
   from `impl Commands` of duckscript/src/types/command.rs by the translator lib/rs2v.py
   (lib/gen/registry_gen.py); Registry.reg_set / reg_get / reg_exists / reg_get_for_use / reg_names /
   reg_remove are the hand-written model functions C15 reasons about.  Property theorems only. *)
From stdpp Require Import gmap list sorting.
Require Import DS.Registry DS.RegistryGenLib DS.RegistryGenTie.
Require Import DSG.GenRegistryFn.

(* Commands::set: the registry it leaves behind AND its result, on the accepted and on both refused paths
   (set_outcome r res = (r', None) for SetOk r', (r, Some error) for a refusal: unchanged registry) *)
Theorem Src_registry_set : gen_registry_understood = true ->
  forall r n decl, gen_set r n decl = set_outcome r (reg_set r n decl).
Proof. exact gen_set_eq. Qed.
Print Assumptions Src_registry_set.
(* the same in the hand model's own result type *)
Theorem Src_registry_set_res : gen_registry_understood = true ->
  forall r n decl, set_res_of (gen_set r n decl) = reg_set r n decl.
Proof. exact gen_set_res_eq. Qed.
Print Assumptions Src_registry_set_res.

Theorem Src_registry_get : gen_registry_understood = true ->
  forall r x, gen_get r x = reg_get r x.
Proof. exact gen_get_eq. Qed.
Print Assumptions Src_registry_get.

Theorem Src_registry_exists : gen_registry_understood = true ->
  forall r x, gen_exists r x = reg_exists r x.
Proof. exact gen_exists_eq. Qed.
Print Assumptions Src_registry_exists.

Theorem Src_registry_get_for_use : gen_registry_understood = true ->
  forall r x, gen_get_for_use r x = reg_get_for_use r x.
Proof. exact gen_get_for_use_eq. Qed.
Print Assumptions Src_registry_get_for_use.

(* Commands::get_all_command_names (HashMap::keys taken in std++'s map_to_list order, then sorted;
   C15_names_sorted shows the result does not depend on that order) *)
Theorem Src_registry_names : gen_registry_understood = true ->
  forall r, gen_names r = reg_names r.
Proof. exact gen_names_eq. Qed.
Print Assumptions Src_registry_names.

(* Commands::remove: the registry it leaves behind and its result *)
Theorem Src_registry_remove : gen_registry_understood = true ->
  forall r x, gen_remove r x = reg_remove r x.
Proof. exact gen_remove_eq. Qed.
Print Assumptions Src_registry_remove.
