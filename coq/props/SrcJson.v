(* SrcJson — the JSON glue model the C17 theorems (C17_json, C17_json_ex, C17_json_fuel) are about IS the current source.
   The gen_* functions are regenerated on every run from duckscript_sdk/src/sdk/std/json/parse/mod.rs (create_structure, fn
   run of impl Command for CommandImpl) and duckscript_sdk/src/sdk/std/json/encode/mod.rs (encode_from_state_value,
   encode_from_state, fn run) by the translator lib/rs2v.py (class FnJson; lib/gen/json_gen.py); Json.v holds the hand-written
   model props/C17.v reasons about, JsonRun.v the hand models of the two `run` functions.  Each theorem is stated under the
   flags of the functions it mentions (stub and `false` when the translator does not understand a function any more).

   Src_json_create_structure_step   one recursion step of the source (the recursive call a parameter) = the model's step
   Src_json_create_structure        the closed recursion on the structure of the document = Json.create_structure, for every
                                    document and store
   Src_json_encode_from_state_value the encoder on fuel = Json.encode_from_state_value (None read as "out of fuel"); it never
                                    answers Err on a store of strings / lists / sub-states
   Src_json_encode_from_state       = Json.encode_from_state, rendered by the oracle
   Src_json_run_parse / Src_json_run_encode   the `run` functions = JsonRun.run_parse / run_encode; they never take one of the
                                    JPanic arms (every `context.arguments[i]` of the source is one)
   Src_json_cycle_out_of_fuel       finding F23 read off the translation: the String arm recurses on `state.get(value)`, which
                                    is not a part of the argument, so the translation needs fuel; on the store
                                    [(h, List [String h])] (a = array ; array_push ${a} ${a}) the translated encoder answers
                                    EFuel for EVERY fuel: no recursion depth is enough (the real stack overflows)
   Src_json_roundtrip               C17_json_fuel stated about the translations: on the theorem's domain, create_structure
                                    of the source followed by encode_from_state of the source (any fuel >= fuel_for j) gives
                                    the rendering of the documented normalisation

   Modelling assumptions of the translation (lib/gen/json_gen.py): serde_json::Value is `json` (a Number is its to_string
   text; an Object its key/value list in Map order); StateValue is `sv` (String / List / SubState; the ten other arms of the
   encoder's `match` are not translated); a HashMap / Map value is an association list iterated in list order; the state is
   Json.store, put_handle is Json.put_handle (counter instead of the RNG), get_handles_sub_state is `cells`; parse_json and
   Value::to_string are oracles; error texts are erased; the variable glue (create_variables / encode_from_variables) is not
   translated (JVars).  Property theorems only. *)
Require Import DS.Base DS.Strings DS.Json DS.JsonProof DS.Rs2vJsonLib DS.JsonRun DS.JsonGenTie.
Require Import DSG.GenJsonFn.

Theorem Src_json_create_structure_step : gen_create_structure_step_understood = true ->
  forall rec data st, gen_create_structure_step rec data st = cs_step rec data st.
Proof. exact gen_create_structure_step_eq. Qed.
Print Assumptions Src_json_create_structure_step.

Theorem Src_json_create_structure : gen_create_structure_step_understood = true -> gen_create_structure_understood = true ->
  forall data st, gen_create_structure data st = create_structure data st.
Proof. exact gen_create_structure_eq. Qed.
Print Assumptions Src_json_create_structure.

Theorem Src_json_encode_from_state_value : gen_encode_from_state_value_step_understood = true ->
  gen_encode_from_state_value_understood = true ->
  forall fuel state v,
    gen_encode_from_state_value fuel state v = eres_of_option (encode_from_state_value fuel state v) /\
    gen_encode_from_state_value fuel state v <> EErr.
Proof. exact (fun U1 U2 fuel state v => conj (gen_efsv_eq U1 U2 fuel state v) (gen_efsv_no_err U1 U2 fuel state v)). Qed.
Print Assumptions Src_json_encode_from_state_value.

Theorem Src_json_encode_from_state : gen_encode_from_state_value_step_understood = true ->
  gen_encode_from_state_value_understood = true -> gen_encode_from_state_understood = true ->
  forall render fuel state value,
    gen_encode_from_state render fuel state value = eres_map render (eres_of_option (encode_from_state fuel state value)).
Proof. exact gen_encode_from_state_eq. Qed.
Print Assumptions Src_json_encode_from_state.

Theorem Src_json_run_parse : gen_create_structure_step_understood = true -> gen_create_structure_understood = true ->
  gen_run_parse_understood = true ->
  forall parse args out st,
    gen_run_parse parse args out st = run_parse parse args out st /\ fst (gen_run_parse parse args out st) <> JPanic.
Proof. exact gen_run_parse_full. Qed.
Print Assumptions Src_json_run_parse.

Theorem Src_json_run_encode : gen_encode_from_state_value_step_understood = true ->
  gen_encode_from_state_value_understood = true -> gen_encode_from_state_understood = true ->
  gen_run_encode_understood = true ->
  forall render fuel args st,
    gen_run_encode render fuel args st = run_encode render fuel args st /\ gen_run_encode render fuel args st <> JPanic.
Proof. exact gen_run_encode_full. Qed.
Print Assumptions Src_json_run_encode.

Theorem Src_json_roundtrip : gen_create_structure_step_understood = true -> gen_create_structure_understood = true ->
  gen_encode_from_state_value_step_understood = true -> gen_encode_from_state_value_understood = true ->
  gen_encode_from_state_understood = true ->
  forall render j st fuel, store_wf st -> json_dom j -> (fuel_for j <= fuel)%nat ->
    let '(o, st') := gen_create_structure j st in
    match o with
    | Some h => match normalise j with
                | Some n => gen_encode_from_state render fuel (cells st') h = EOk (render n)
                | None => False
                end
    | None => normalise j = None
    end.
Proof. exact gen_roundtrip. Qed.
Print Assumptions Src_json_roundtrip.

Theorem Src_json_cycle_out_of_fuel : gen_encode_from_state_value_step_understood = true ->
  gen_encode_from_state_value_understood = true ->
  forall render h fuel,
    gen_encode_from_state_value fuel (cyclic_store h) (SList [SStr h]) = EFuel /\
    (gen_encode_from_state_understood = true -> gen_encode_from_state render fuel (cyclic_store h) h = EFuel).
Proof. exact gen_efsv_cycle. Qed.
Print Assumptions Src_json_cycle_out_of_fuel.
