(* SrcRunnerBind — the runner WITH argument binding (RunnerBind.v, the second runner model of C03) IS the current
   source: the same regenerated translation of duckscript/src/runner.rs as in SrcRunner.v, here with
   bind_command_arguments.  Property theorems only (proofs: theories/RunnerBindGenTie.v). *)
From stdpp Require Import gmap.
Require Import DS.Base DS.Parser DS.Expansion DS.Runner DS.RunnerBind DS.Rs2vLib3 DS.RunnerBindGenTie.
Require Import DSG.GenRunnerFn.

(* bind_command_arguments: every written argument expanded by expand_by_wrapper, the values appended in order *)
Theorem Src_runner_bind_command_arguments : gen_bind_command_arguments_understood = true ->
  forall variables arguments,
    gen_bind_command_arguments variables arguments = Expansion.bind_command_arguments variables arguments.
Proof. exact gen_bind_command_arguments_eq. Qed.
Print Assumptions Src_runner_bind_command_arguments.
Theorem Src_runner_bind_vars : gen_bind_command_arguments_understood = true ->
  forall v args, gen_bind_command_arguments (env_of v) (Some args) = bind_vars v args.
Proof. exact gen_bind_vars_eq. Qed.
Print Assumptions Src_runner_bind_vars.

(* run_instruction for EVERY binder *)
Theorem Src_runner_bind_run_instruction : gen_run_instruction_understood = true ->
  forall (cstate : Type) (exists_cmd : cstate -> str -> bool)
         (cmd : str -> inv -> world cstate -> result * world cstate) (bnd : vmap -> list str -> list str) w i line,
    gen_run_instruction cstate exists_cmd cmd bnd w i line = run_instruction_b cstate exists_cmd cmd bnd w i line.
Proof. exact gen_run_instruction_b_eq. Qed.
Print Assumptions Src_runner_bind_run_instruction.

(* run_on_error_instruction: the direct, unbound invocation *)
Theorem Src_runner_bind_run_on_error : gen_run_on_error_understood = true ->
  forall (cstate : Type) (exists_cmd : cstate -> str -> bool)
         (cmd : str -> inv -> world cstate -> result * world cstate) w msg m,
    gen_run_on_error cstate exists_cmd cmd w msg m = run_on_error_b cstate exists_cmd cmd w msg m.
Proof. exact gen_run_on_error_b_eq. Qed.
Print Assumptions Src_runner_bind_run_on_error.

(* one iteration of the loop, and the loop *)
Theorem Src_runner_bind_step : gen_runner_step_understood = true ->
  forall (cstate : Type) (exists_cmd : cstate -> str -> bool)
         (cmd : str -> inv -> world cstate -> result * world cstate) (ext : nat -> bool)
         (bnd : vmap -> list str -> list str) prog lt c,
    gen_step_with cstate ext (run_instruction_b cstate exists_cmd cmd bnd) (run_on_error_b cstate exists_cmd cmd) prog lt c
    = step_b cstate exists_cmd cmd ext bnd prog lt c.
Proof. exact gen_step_b_eq. Qed.
Print Assumptions Src_runner_bind_step.
Theorem Src_runner_bind_loop : gen_runner_step_understood = true ->
  forall (cstate : Type) (exists_cmd : cstate -> str -> bool)
         (cmd : str -> inv -> world cstate -> result * world cstate) (ext : nat -> bool)
         (bnd : vmap -> list str -> list str) prog lt fuel start w,
    gen_run_loop_with cstate ext (run_instruction_b cstate exists_cmd cmd bnd) (run_on_error_b cstate exists_cmd cmd)
                      prog lt fuel start w
    = loop_b cstate exists_cmd cmd ext bnd prog lt fuel (Config start w 0 []).
Proof. exact gen_run_loop_b_eq. Qed.
Print Assumptions Src_runner_bind_loop.
