(* SrcInclude — the include pre-processor model the C14 theorems are about (and the pre-processor dispatch whose error
   kinds are C08's) IS the current source.  The gen_* functions are regenerated on every run from
   duckscript/src/preprocessor/include_files_preprocessor.rs (run), preprocessor/mod.rs (run) and duckscript/src/parser.rs
   (parse_file, parse_text_with_source_file, parse_text) by the translator lib/rs2v.py (class FnV; lib/gen/include_gen.py);
   Include.v / IncludePath.v / Parser.v are the hand-written models that props/C14.v, C14b.v and C08.v reason about,
   IncludeFns.v names the three wrappers.  Each theorem is stated under the flag(s) of the generated functions it is about
   (stub and `false` when the translator does not understand that function any more).
   Left open on both sides (arguments of the functions): canon (std::fs::canonicalize + to_string_lossy, None when the OS call fails), fs
   (fsio::file::read_text_file, None when it fails), pf (parser::parse_file as the loop calls it), inc (the include handler
   of the line loop).  Modelling assumptions of the translation (lib/gen/include_gen.py): PathBuf / &Path values are Rust
   strings (conversions are the identity), Path::parent / PathBuf::push / Path::join are IncludePath.parent / push,
   print_preprocessor::run only prints (checked on its syntax tree), meta_info.line of a parsed instruction is Some ln,
   ErrorReadingFile(file, _) is (EReadFile, 0, Some file).  Property theorems only. *)
Require Import DS.Base DS.Parser DS.ParserIx DS.Rs2vCliLib DS.Include DS.IncludePath DS.IncludeFns DS.IncludeGenTie.
Require Import DSG.GenIncludeFn.

(* ---- include_files_preprocessor.rs ---- *)
(* the path one listed file is read from: an argument starting with '/' or '\' as it is; otherwise, when the including
   text has a source with a parent, parent joined with the argument, canonicalised when the OS can; else the argument *)
Theorem Src_include_path : gen_include_path_understood = true ->
  forall canon src a, gen_include_path canon src a = include_path (resolve canon) src a.
Proof. exact gen_include_path_eq. Qed.
Print Assumptions Src_include_path.

(* one iteration of the loop: parse the file at that path; append its instructions, or return its error *)
Theorem Src_include_step : gen_include_run_understood = true ->
  forall canon pf src st a,
    gen_include_run_body canon pf src st a
    = match pf (include_path (resolve canon) src a) with
      | TOk is => LCont (st ++ is)
      | TErr e l s => LRet (TErr e l s)
      end.
Proof. exact gen_include_run_body_eq. Qed.
Print Assumptions Src_include_step.

(* the loop: every listed file in order, the first error returned; a directive without arguments includes nothing *)
Theorem Src_include_run : gen_include_run_understood = true ->
  forall canon pf src oargs,
    gen_include_run canon pf src oargs
    = match oargs with
      | Some args => inc_list (resolve canon) pf src args
      | None => TOk []
      end.
Proof. exact gen_include_run_eq. Qed.
Print Assumptions Src_include_run.

(* ---- preprocessor/mod.rs ---- *)
(* the dispatch: print -> nothing, include_files -> the handler, another command -> UnknownPreProcessorCommand, no
   command -> PreProcessNoCommandFound (both with the line's own position), any other instruction -> nothing *)
Theorem Src_include_preprocess : gen_preprocess_understood = true ->
  forall inc src ln t, gen_preprocess (inc_opt inc) src ln t = preprocess inc src ln t.
Proof. exact gen_preprocess_eq. Qed.
Print Assumptions Src_include_preprocess.

Theorem Src_include_preprocess_run : gen_preprocess_understood = true -> gen_include_run_understood = true ->
  forall canon pf src ln t,
    gen_preprocess (fun oa s => gen_include_run canon pf s oa) src ln t
    = preprocess (fun args s => inc_list (resolve canon) pf s args) src ln t.
Proof. exact gen_preprocess_include_eq. Qed.
Print Assumptions Src_include_preprocess_run.

(* ---- parser.rs: the wrappers ---- *)
(* parse_text: the line loop from line 1 without a source.  With the handler of C01 / C08 it is Parser.parse_text *)
Theorem Src_include_parse_text : gen_parse_text_understood = true ->
  forall inc text,
    gen_parse_text inc text = inj_tres (Parser.parse_text_src inc None text) /\
    gen_parse_text no_include text = inj_tres (Parser.parse_text text).
Proof.
  intros U inc text. rewrite !(gen_parse_text_eq U), parse_text_inc_model.
  split; [reflexivity|apply (parse_text_inc_no_include text)].
Qed.
Print Assumptions Src_include_parse_text.

(* parse_text_with_source_file: the same loop, every line tagged with the file *)
Theorem Src_include_parse_text_with_source_file : gen_parse_text_with_source_file_understood = true ->
  forall inc text file,
    gen_parse_text_with_source_file inc text file = inj_tres (Parser.parse_text_src inc (Some file) text).
Proof. intros U inc text file. rewrite (gen_parse_text_with_source_file_eq U). apply parse_text_with_source_file_model. Qed.
Print Assumptions Src_include_parse_text_with_source_file.

(* parse_file: an unreadable file is ErrorReadingFile for that file, a readable one is parsed with itself as the source *)
Theorem Src_include_parse_file : gen_parse_file_understood = true ->
  forall fs inc file,
    gen_parse_file fs inc file
    = inj_tres (match fs file with
                | None => TErr EReadFile 0 (Some file)
                | Some text => Parser.parse_text_src inc (Some file) text
                end).
Proof. intros U fs inc file. rewrite (gen_parse_file_eq U). apply parse_file_step_model. Qed.
Print Assumptions Src_include_parse_file.

(* ---- the recursion ---- *)
(* Include.parse_file (what C14 is about), one include level unfolded, is the translated parse_file whose include
   handler is the translated loop calling Include.parse_file at the next smaller include depth *)
Theorem Src_include_knot : gen_parse_file_understood = true -> gen_include_run_understood = true ->
  forall fs canon f p,
    inj_tres (Include.parse_file fs (resolve canon) (S f) p)
    = gen_parse_file fs (fun args src => gen_include_run canon (Include.parse_file fs (resolve canon) f) src (Some args)) p.
Proof. exact gen_include_knot. Qed.
Print Assumptions Src_include_knot.
