(* SrcRegfn — the registration a `fn` definition line performs (the SFn arm of Registry.sstep, which C15_script_change /
   C15_script_inv / C15_script_refuse are about) IS the current source: gen_fn_register is regenerated on every run from
   FunctionCommand::run (duckscript_sdk/src/sdk/std/flowcontrol/function/mod.rs) by the translator lib/rs2v.py
   (lib/gen/regfn_gen.py, registry view: the block scan, annotation parser and stored line numbers are parameters).
   Property theorems only. *)
From stdpp Require Import gmap list.
Require Import DS.Registry DS.RegistryGenLib DS.RegcmdsGenLib DS.RegfnGenLib DS.RegfnGenTie.
Require Import DSG.GenRegfnFn.

(* on the domain of SFn (first definition with its end found, or the same line again): store the name, THEN Commands::set;
   a refusal is an error with the name left stored; never a panic *)
Theorem Src_regfn_register : gen_fn_register_understood = true ->
  forall ann meta found line args s n,
    fn_name_of ann args = Some n -> fn_step_domain meta found line s n ->
    gen_fn_register ann meta found line args s = Some (let '(s', r) := sstep s (SFn n) in (s', FRes r)).
Proof. exact gen_fn_register_eq. Qed.
Print Assumptions Src_regfn_register.

(* off that domain (no argument / defined at another line / no end found): an error or a crash, state unchanged *)
Theorem Src_regfn_off_domain : gen_fn_register_understood = true ->
  forall ann meta found line args s,
    match fn_name_of ann args with
    | None => gen_fn_register ann meta found line args s = Some (s, FRes SErr)
    | Some n =>
        (n ∈ sr_fn s -> fst (meta n) <> line -> gen_fn_register ann meta found line args s = Some (s, FRes SErr)) /\
        (n ∉ sr_fn s -> (forall e, found <> FFound e) ->
         gen_fn_register ann meta found line args s = Some (s, FCrash))
    end.
Proof. exact gen_fn_register_off_domain. Qed.
Print Assumptions Src_regfn_off_domain.
