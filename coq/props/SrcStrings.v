(* SrcStrings — the command models the C16 / C17 theorems are about ARE the current source.
   The gen_cmd_* functions are regenerated on every run from the `run` functions (impl Command for CommandImpl) of
   duckscript_sdk/src/sdk/std/string/{length, indexof, last_indexof, substring, contains, starts_with, ends_with, equals,
   is_empty, replace, split, trim, trim_start, trim_end}/mod.rs, collections/range/mod.rs and
   math/{less_than, greater_than, hex_encode, hex_decode}/mod.rs by the translator lib/rs2v.py (class FnCmd;
   lib/gen/strings_gen.py); Strings.v (C16) and Codec.v (C17, the two hex commands) hold the hand-written models that
   props/C16.v and props/C17.v reason about.  Each theorem is stated under the flag of its own command (stub and `false`
   when the translator does not understand that command any more).

   In the translation every `context.arguments[i]`, every `unwrap()` and every checked `+` / `-` of the source is an
   explicit RPanic arm; the second half of each theorem says no argument vector reaches one.

   Modelling assumptions of the translation (lib/gen/strings_gen.py): Rust's std string functions are the naive list
   functions of Strings.v / Utf8.v / Codec.v (str::len = blen, find / rfind / contains / starts_with / ends_with / split /
   replace / trim* / get(a..b) / parse / to_string / from_str_radix / trim_start_matches("0x") / {:#x}); f64 parsing and
   comparison only as far as Strings.v models them (ROod elsewhere); error message TEXTS are erased to the model's
   error kinds by the table of the C16 harness; put_handle of a list is the list of its elements' display texts; a
   String is at most isize::MAX bytes long ([args_small], substring only).  Property theorems only. *)
Require Import DS.Base DS.Utf8 DS.Strings DS.StringsProof2 DS.Codec DS.Rs2vStrLib DS.StringsGenTie.
Require Import DSG.GenStringsFn.

(* ---- C16: the string family and range --------------------------------------------------------------------------- *)
Theorem Src_strings_length : gen_cmd_length_understood = true ->
  forall args, gen_cmd_length args = cmd_length args /\ defined (gen_cmd_length args).
Proof. exact (fun U args => conj (gen_cmd_length_eq U args) (gen_cmd_length_defined U args)). Qed.
Print Assumptions Src_strings_length.

Theorem Src_strings_indexof : gen_cmd_indexof_understood = true ->
  forall args, gen_cmd_indexof args = cmd_indexof args /\ defined (gen_cmd_indexof args).
Proof. exact (fun U args => conj (gen_cmd_indexof_eq U args) (gen_cmd_indexof_defined U args)). Qed.
Print Assumptions Src_strings_indexof.

Theorem Src_strings_last_indexof : gen_cmd_last_indexof_understood = true ->
  forall args, gen_cmd_last_indexof args = cmd_last_indexof args /\ defined (gen_cmd_last_indexof args).
Proof. exact (fun U args => conj (gen_cmd_last_indexof_eq U args) (gen_cmd_last_indexof_defined U args)). Qed.
Print Assumptions Src_strings_last_indexof.

Theorem Src_strings_substring : gen_cmd_substring_understood = true ->
  forall args, args_small args -> gen_cmd_substring args = cmd_substring args /\ defined (gen_cmd_substring args).
Proof. exact (fun U args Hs => conj (gen_cmd_substring_eq U args Hs) (gen_cmd_substring_defined U args Hs)). Qed.
Print Assumptions Src_strings_substring.

Theorem Src_strings_contains : gen_cmd_contains_understood = true ->
  forall args, gen_cmd_contains args = cmd_contains args /\ defined (gen_cmd_contains args).
Proof. exact (fun U args => conj (gen_cmd_contains_eq U args) (gen_cmd_contains_defined U args)). Qed.
Print Assumptions Src_strings_contains.

Theorem Src_strings_starts_with : gen_cmd_starts_with_understood = true ->
  forall args, gen_cmd_starts_with args = cmd_starts_with args /\ defined (gen_cmd_starts_with args).
Proof. exact (fun U args => conj (gen_cmd_starts_with_eq U args) (gen_cmd_starts_with_defined U args)). Qed.
Print Assumptions Src_strings_starts_with.

Theorem Src_strings_ends_with : gen_cmd_ends_with_understood = true ->
  forall args, gen_cmd_ends_with args = cmd_ends_with args /\ defined (gen_cmd_ends_with args).
Proof. exact (fun U args => conj (gen_cmd_ends_with_eq U args) (gen_cmd_ends_with_defined U args)). Qed.
Print Assumptions Src_strings_ends_with.

Theorem Src_strings_equals : gen_cmd_equals_understood = true ->
  forall args, gen_cmd_equals args = cmd_equals args /\ defined (gen_cmd_equals args).
Proof. exact (fun U args => conj (gen_cmd_equals_eq U args) (gen_cmd_equals_defined U args)). Qed.
Print Assumptions Src_strings_equals.

Theorem Src_strings_is_empty : gen_cmd_is_empty_understood = true ->
  forall args, gen_cmd_is_empty args = cmd_is_empty args /\ defined (gen_cmd_is_empty args).
Proof. exact (fun U args => conj (gen_cmd_is_empty_eq U args) (gen_cmd_is_empty_defined U args)). Qed.
Print Assumptions Src_strings_is_empty.

Theorem Src_strings_replace : gen_cmd_replace_understood = true ->
  forall args, gen_cmd_replace args = cmd_replace args /\ defined (gen_cmd_replace args).
Proof. exact (fun U args => conj (gen_cmd_replace_eq U args) (gen_cmd_replace_defined U args)). Qed.
Print Assumptions Src_strings_replace.

Theorem Src_strings_split : gen_cmd_split_understood = true ->
  forall args, gen_cmd_split args = cmd_split args /\ defined (gen_cmd_split args).
Proof. exact (fun U args => conj (gen_cmd_split_eq U args) (gen_cmd_split_defined U args)). Qed.
Print Assumptions Src_strings_split.

Theorem Src_strings_trim : gen_cmd_trim_understood = true ->
  forall args, gen_cmd_trim args = cmd_trim args /\ defined (gen_cmd_trim args).
Proof. exact (fun U args => conj (gen_cmd_trim_eq U args) (gen_cmd_trim_defined U args)). Qed.
Print Assumptions Src_strings_trim.

Theorem Src_strings_trim_start : gen_cmd_trim_start_understood = true ->
  forall args, gen_cmd_trim_start args = cmd_trim_start args /\ defined (gen_cmd_trim_start args).
Proof. exact (fun U args => conj (gen_cmd_trim_start_eq U args) (gen_cmd_trim_start_defined U args)). Qed.
Print Assumptions Src_strings_trim_start.

Theorem Src_strings_trim_end : gen_cmd_trim_end_understood = true ->
  forall args, gen_cmd_trim_end args = cmd_trim_end args /\ defined (gen_cmd_trim_end args).
Proof. exact (fun U args => conj (gen_cmd_trim_end_eq U args) (gen_cmd_trim_end_defined U args)). Qed.
Print Assumptions Src_strings_trim_end.

Theorem Src_strings_range : gen_cmd_range_understood = true ->
  forall args, gen_cmd_range args = cmd_range args /\ defined (gen_cmd_range args).
Proof. exact (fun U args => conj (gen_cmd_range_eq U args) (gen_cmd_range_defined U args)). Qed.
Print Assumptions Src_strings_range.

(* ---- C16 (partial: the f64 domain of Strings.v) and C17 (hex) --------------------------------------------------- *)
Theorem Src_strings_less_than : gen_cmd_less_than_understood = true ->
  forall args, gen_cmd_less_than args = cmd_less_than args /\ gen_cmd_less_than args <> RPanic.
Proof. exact (fun U args => conj (gen_cmd_less_than_eq U args) (gen_cmd_less_than_no_panic U args)). Qed.
Print Assumptions Src_strings_less_than.

Theorem Src_strings_greater_than : gen_cmd_greater_than_understood = true ->
  forall args, gen_cmd_greater_than args = cmd_greater_than args /\ gen_cmd_greater_than args <> RPanic.
Proof. exact (fun U args => conj (gen_cmd_greater_than_eq U args) (gen_cmd_greater_than_no_panic U args)). Qed.
Print Assumptions Src_strings_greater_than.

Theorem Src_strings_hex_encode : gen_cmd_hex_encode_understood = true ->
  forall args, gen_cmd_hex_encode args = cmd_hex_encode args /\ gen_cmd_hex_encode args <> RPanic.
Proof. exact (fun U args => conj (gen_cmd_hex_encode_eq U args) (gen_cmd_hex_encode_no_panic U args)). Qed.
Print Assumptions Src_strings_hex_encode.

Theorem Src_strings_hex_decode : gen_cmd_hex_decode_understood = true ->
  forall args, gen_cmd_hex_decode args = cmd_hex_decode args /\ gen_cmd_hex_decode args <> RPanic.
Proof. exact (fun U args => conj (gen_cmd_hex_decode_eq U args) (gen_cmd_hex_decode_no_panic U args)). Qed.
Print Assumptions Src_strings_hex_decode.

