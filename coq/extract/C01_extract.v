Require Import DS.Base DS.Parser DS.Render.
Require Import ExtrOcamlBasic.
Extraction Language OCaml.
Extraction "../ocaml/gen/c01_model.ml" N.of_nat N.to_nat Z.of_N Z.to_N
  render_line wf valid norm render_script item_ok last_ok expect_from script_instrs parse_text parse_line.
