(* C13 uses the same executable model as C03 (Runner.v instantiated with the scripted commands). *)
From stdpp Require Import gmap.
Require Import DS.Base DS.Runner DS.RunnerScripted DS.SdkErr DS.RunnerNestedInst.
(* kept identical to C03_extract.v (ocaml/c13_driver.ml is a link to c03_driver.ml, which has the bound-runner case B) *)
Require Import DS.RunnerBind DS.RunnerBindScripted.
Require Import ExtrOcamlBasic.
Extraction Language OCaml.
Extraction "../ocaml/gen/c13_model.ml" N.of_nat N.to_nat Z.of_N Z.to_N
  s_run s_iter_nohalt s_init s_exec label_table vars_list nat_str parse_i32
  n_run n_log_of n_var n_iter
  sb_run.
