Require Import DS.Base DS.Parser DS.ScriptConf.
Require DSG.GenScripts.
Require Import ExtrOcamlBasic.
Extraction Language OCaml.
Extraction "../ocaml/gen/c19_model.ml" N.of_nat N.to_nat Z.of_N Z.to_N
  script_confined all_scripts_confined pure_cmds flow_cmds script_aliases scope_prefix
  DSG.GenScripts.gen_scripts DSG.GenScripts.sc_aliases DSG.GenScripts.sc_scope DSG.GenScripts.sc_min_args DSG.GenScripts.sc_name DSG.GenScripts.sc_path.
