Require Import DS.Base DS.Parser DS.ScriptConf.
Require DSG.GenScripts.
(* definition files only (no proof files): the body model, its check, and the toy instance that replays the witness *)
Require Import DS.Runner DS.ScriptBody DS.ScriptBodyToy.
Require Import ExtrOcamlBasic.
Extraction Language OCaml.
Extraction "../ocaml/gen/c19_model.ml" N.of_nat N.to_nat Z.of_N Z.to_N
  script_confined all_scripts_confined pure_cmds flow_cmds script_aliases scope_prefix
  DSG.GenScripts.gen_scripts DSG.GenScripts.sc_aliases DSG.GenScripts.sc_scope DSG.GenScripts.sc_min_args DSG.GenScripts.sc_name DSG.GenScripts.sc_path
  script_confined_s all_scripts_confined_s table_ok_s gen_table se_scope se_aliases se_body se_min iok instr_ok_s
  cond_cmds s_for s_set_by_name wit_summary.
