From Coq Require Import NArith ZArith.
Require Import DS.Collections DS.CollectionsSpec DS.CollectionsTables.
Require Import ExtrOcamlBasic.
Extraction Language OCaml.
Extraction "../ocaml/gen/c12_model.ml" N.of_nat N.to_nat Z.of_N Z.to_N
  init step_h step_s agrees dump_handle table_size native cmd_of_alias.
