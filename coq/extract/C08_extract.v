Require Import DS.Base DS.Parser DS.ParserSpec DS.Render DS.ParserClasses.
Require DS.ParserIx.
Definition ix_parse_text := DS.ParserIx.parse_text.
Require Import ExtrOcamlBasic.
Extraction Language OCaml.
Extraction "../ocaml/gen/c08_model.ml" N.of_nat N.to_nat Z.of_N Z.to_N
  is_ws lines parse_line parse_text line_error no_include_args blank_or_comment
  render_bad valid_bad class_of class_kind render_line wf valid ix_parse_text.
