From stdpp Require Import gmap.
Require Import DS.Base DS.Runner DS.RunnerScripted DS.SdkErr DS.RunnerNestedInst.
(* the binding runner (RunnerBind.v) is loaded AFTER Runner.v so that Runner's names keep their spelling in the extracted file *)
Require Import DS.RunnerBind DS.RunnerBindScripted.
Require Import ExtrOcamlBasic.
Extraction Language OCaml.
Extraction "../ocaml/gen/c03_model.ml" N.of_nat N.to_nat Z.of_N Z.to_N
  s_run s_iter_nohalt s_init s_exec label_table vars_list nat_str parse_i32
  n_run n_log_of n_var n_iter
  sb_run.
