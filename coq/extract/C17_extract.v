Require Import DS.Base DS.Utf8 DS.Strings DS.Codec DS.Json DS.CodecProps.
Require Import ExtrOcamlBasic.
Extraction Language OCaml.
Extraction "../ocaml/gen/c17_model.ml" N.of_nat N.to_nat Z.of_N Z.to_N
  b64_encode b64_decode utf8_encode utf8_decode cmd_hex_encode cmd_hex_decode scalar
  create_structure encode_from_state roundtrip roundtrip_model fuel_for empty_store normalise json_wfb no_handle_leafb
  cmd_map_to_properties cmd_map_load_properties pp_roundtrip pp_prefix_map representable pair_clean str_nodup
  w1252_decode_byte w1252_encode_char char_ok utf8_ok wire_bytes pp_write_escaped.
