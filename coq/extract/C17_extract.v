Require Import DS.Base DS.Utf8 DS.Strings DS.Codec.
Require Import ExtrOcamlBasic.
Extraction Language OCaml.
Extraction "../ocaml/gen/c17_model.ml" N.of_nat N.to_nat Z.of_N Z.to_N
  b64_encode b64_decode utf8_encode utf8_decode cmd_hex_encode cmd_hex_decode scalar.
