Require Import DS.Base DS.Parser DS.Include DS.IncludePath.
Require Import ExtrOcamlBasic.
Extraction Language OCaml.
Extraction "../ocaml/gen/c14_model.ml" N.of_nat N.to_nat Z.of_N Z.to_N
  parse_file inline_x inline_t parse_x pasted unlines erase parse_text include_path
  parent push lex_join resolve trim_dir clean_dir plain.
