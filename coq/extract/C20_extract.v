Require Import DS.Base DS.Parser DS.Cli.
Require DSG.GenCli.
Require Import ExtrOcamlBasic.
Extraction Language OCaml.
Extraction "../ocaml/gen/c20_model.ml" N.of_nat N.to_nat Z.of_N Z.to_N
  dispatch lint_parsed lint_says_parsed exit_code prints_error run_cli parse_text parse_text_src no_include is_lower_case lower_ascii DSG.GenCli.gen_cli_err_status.
