From Coq Require Import NArith ZArith.
Require Import DS.Registry DS.Scope DS.ScopeSpec.
Require Import ExtrOcamlBasic.
Extraction Language OCaml.
Extraction "../ocaml/gen/c11_model.ml" N.of_nat N.to_nat Z.of_N Z.to_N
  ms_init m_step m_run s_step s_run vars_dump balanced.
