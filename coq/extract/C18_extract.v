From Coq Require Import NArith ZArith.
Require Import DS.FsTree.
Require Import ExtrOcamlBasic.
Extraction Language OCaml.
Extraction "../ocaml/gen/c18_model.ml" N.of_nat N.to_nat Z.of_N Z.to_N
  M_run S_run F_run tree_list path_basename path_dirname M_join S_join utf8_encode utf8_decode.
