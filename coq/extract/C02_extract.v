Require Import DS.Base DS.Parser DS.ParserIx DS.Expansion DS.ExpansionSpec DS.ExpansionIx.
Require Import ExtrOcamlBasic.
Extraction Language OCaml.
Extraction "../ocaml/gen/c02_model.ml" N.of_nat N.to_nat Z.of_N Z.to_N
  env_of_list expand_by_wrapper bind_args bind_command_arguments
  render_tmpl render_arg denote_tmpl denote_args wf_arg wf_piece_literal known_arg
  known_spread_value known_spread_quote known_esc_tmpl words reparse_arguments
  expand_by_wrapper_ix bind_args_ix bind_command_arguments_ix.
