Require Import DS.Base DS.FlowTables DS.FlowScan DS.Flow DS.FlowTree.
Require Import ExtrOcamlBasic.
Extraction Language OCaml.
Extraction "../ocaml/gen/c04_model.ml" N.of_nat N.to_nat Z.of_N Z.to_N
  compile tree_run run_program render wfb_b world0 tables_wf classify
  n_if n_elseif n_else n_endif n_while n_endwhile n_for n_endfor openers closers
  find_commands table_of.
