Require Import DS.Base DS.Parser DS.ParserIx DS.Expansion DS.ExpansionIx DS.EvalSer DS.EvalSerIx.
Require Import ExtrOcamlBasic.
Extraction Language OCaml.
Extraction "../ocaml/gen/c09_model.ml" N.of_nat N.to_nat Z.of_N Z.to_N
  env_of_list serialise eval_parse eval_call eval_parse_ix eval_call_ix
  safe safe_simple head_ok last_ok is_cmd cls_NL cls_Q cls_H cls_D cls_B cls_P cls_E cls_W.
