From Coq Require Import NArith ZArith.
Require Import DS.Registry DS.RegistrySpec.
Require Import ExtrOcamlBasic.
Extraction Language OCaml.
Extraction "../ocaml/gen/c15_model.ml" N.of_nat N.to_nat Z.of_N Z.to_N
  reg_new step run reg_dump reg_of_lists sreg_init sstep srun spec_set spec_remove reg_set reg_remove.
