Require Import DS.Base DS.FlowTables DS.FlowScan DS.Flow DS.FlowTree DS.FlowFn DS.FlowFnTree DS.FlowFnDom DS.FlowFnC DS.FlowFnCTree.
Require Import ExtrOcamlBasic.
Extraction Language OCaml.
Extraction "../ocaml/gen/c05_model.ml" N.of_nat N.to_nat Z.of_N Z.to_N
  compile_prog prog_run frun_program frender wf_prog known_f6 world0 tables_wf
  n_if n_elseif n_else n_endif n_while n_endwhile n_for n_endfor openers closers
  n_function n_endfunction n_return fn_closers ordered_prog fn_tables_ok
  compile_cprog cprog_run crun_program wf_cprog cknown_f6 corner_prog has_cond_calls lower_prog.
