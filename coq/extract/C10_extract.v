From stdpp Require Import gmap.
Require Import DS.Base DS.Cond DS.Runner DS.SdkErr DS.SdkErrInst.
Require Import ExtrOcamlBasic.
Extraction Language OCaml.
Extraction "../ocaml/gen/c10_model.ml" N.of_nat N.to_nat Z.of_N Z.to_N
  e_run e_iter e_log e_var.
