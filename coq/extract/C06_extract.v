Require Import DS.Base DS.Cond DS.CondSpec DS.CondIx.
Require Import ExtrOcamlBasic.
Extraction Language OCaml.
Extraction "../ocaml/gen/c06_model.ml" N.of_nat N.to_nat Z.of_N Z.to_N
  eval_slice is_true_some falsy toks sem eval_slice_ix eval_slice_ix_checked.
