Require Import DS.Base DS.Utf8 DS.Strings.
Require Import ExtrOcamlBasic.
Extraction Language OCaml.
Extraction "../ocaml/gen/c16_model.ml" N.of_nat N.to_nat Z.of_N Z.to_N
  cmd_length cmd_indexof cmd_last_indexof cmd_substring cmd_contains cmd_starts_with cmd_ends_with
  cmd_equals cmd_is_empty cmd_concat cmd_replace cmd_split cmd_trim cmd_trim_start cmd_trim_end
  cmd_range cmd_uppercase cmd_lowercase cmd_less_than cmd_greater_than cmd_calc_expr calc_exact
  spec_find spec_rfind spec_slice is_ws digits_val show_N show_Z join blen.
