
(** val negb : bool -> bool **)

let negb = function
| true -> false
| false -> true

type nat =
| O
| S of nat

(** val length : 'a1 list -> nat **)

let rec length = function
| [] -> O
| _ :: l' -> S (length l')

(** val app : 'a1 list -> 'a1 list -> 'a1 list **)

let rec app l m =
  match l with
  | [] -> m
  | a :: l1 -> a :: (app l1 m)

type comparison =
| Eq
| Lt
| Gt

(** val compOpp : comparison -> comparison **)

let compOpp = function
| Eq -> Eq
| Lt -> Gt
| Gt -> Lt

module Coq__1 = struct
 (** val add : nat -> nat -> nat **)
 let rec add n0 m =
   match n0 with
   | O -> m
   | S p -> S (add p m)
end
include Coq__1

(** val rev : 'a1 list -> 'a1 list **)

let rec rev = function
| [] -> []
| x :: l' -> app (rev l') (x :: [])

(** val map : ('a1 -> 'a2) -> 'a1 list -> 'a2 list **)

let rec map f = function
| [] -> []
| a :: t -> (f a) :: (map f t)

(** val existsb : ('a1 -> bool) -> 'a1 list -> bool **)

let rec existsb f = function
| [] -> false
| a :: l0 -> (||) (f a) (existsb f l0)

type positive =
| XI of positive
| XO of positive
| XH

type n =
| N0
| Npos of positive

type z =
| Z0
| Zpos of positive
| Zneg of positive

module Pos =
 struct
  (** val succ : positive -> positive **)

  let rec succ = function
  | XI p -> XO (succ p)
  | XO p -> XI p
  | XH -> XO XH

  (** val add : positive -> positive -> positive **)

  let rec add x y =
    match x with
    | XI p ->
      (match y with
       | XI q -> XO (add_carry p q)
       | XO q -> XI (add p q)
       | XH -> XO (succ p))
    | XO p ->
      (match y with
       | XI q -> XI (add p q)
       | XO q -> XO (add p q)
       | XH -> XI p)
    | XH -> (match y with
             | XI q -> XO (succ q)
             | XO q -> XI q
             | XH -> XO XH)

  (** val add_carry : positive -> positive -> positive **)

  and add_carry x y =
    match x with
    | XI p ->
      (match y with
       | XI q -> XI (add_carry p q)
       | XO q -> XO (add_carry p q)
       | XH -> XI (succ p))
    | XO p ->
      (match y with
       | XI q -> XO (add_carry p q)
       | XO q -> XI (add p q)
       | XH -> XO (succ p))
    | XH ->
      (match y with
       | XI q -> XI (succ q)
       | XO q -> XO (succ q)
       | XH -> XI XH)

  (** val pred_double : positive -> positive **)

  let rec pred_double = function
  | XI p -> XI (XO p)
  | XO p -> XI (pred_double p)
  | XH -> XH

  (** val compare_cont : comparison -> positive -> positive -> comparison **)

  let rec compare_cont r x y =
    match x with
    | XI p ->
      (match y with
       | XI q -> compare_cont r p q
       | XO q -> compare_cont Gt p q
       | XH -> Gt)
    | XO p ->
      (match y with
       | XI q -> compare_cont Lt p q
       | XO q -> compare_cont r p q
       | XH -> Gt)
    | XH -> (match y with
             | XH -> r
             | _ -> Lt)

  (** val compare : positive -> positive -> comparison **)

  let compare =
    compare_cont Eq

  (** val eqb : positive -> positive -> bool **)

  let rec eqb p q =
    match p with
    | XI p0 -> (match q with
                | XI q0 -> eqb p0 q0
                | _ -> false)
    | XO p0 -> (match q with
                | XO q0 -> eqb p0 q0
                | _ -> false)
    | XH -> (match q with
             | XH -> true
             | _ -> false)

  (** val iter_op : ('a1 -> 'a1 -> 'a1) -> positive -> 'a1 -> 'a1 **)

  let rec iter_op op p a =
    match p with
    | XI p0 -> op a (iter_op op p0 (op a a))
    | XO p0 -> iter_op op p0 (op a a)
    | XH -> a

  (** val to_nat : positive -> nat **)

  let to_nat x =
    iter_op Coq__1.add x (S O)

  (** val of_succ_nat : nat -> positive **)

  let rec of_succ_nat = function
  | O -> XH
  | S x -> succ (of_succ_nat x)
 end

module N =
 struct
  (** val add : n -> n -> n **)

  let add n0 m =
    match n0 with
    | N0 -> m
    | Npos p -> (match m with
                 | N0 -> n0
                 | Npos q -> Npos (Pos.add p q))

  (** val compare : n -> n -> comparison **)

  let compare n0 m =
    match n0 with
    | N0 -> (match m with
             | N0 -> Eq
             | Npos _ -> Lt)
    | Npos n' -> (match m with
                  | N0 -> Gt
                  | Npos m' -> Pos.compare n' m')

  (** val eqb : n -> n -> bool **)

  let eqb n0 m =
    match n0 with
    | N0 -> (match m with
             | N0 -> true
             | Npos _ -> false)
    | Npos p -> (match m with
                 | N0 -> false
                 | Npos q -> Pos.eqb p q)

  (** val leb : n -> n -> bool **)

  let leb x y =
    match compare x y with
    | Gt -> false
    | _ -> true

  (** val to_nat : n -> nat **)

  let to_nat = function
  | N0 -> O
  | Npos p -> Pos.to_nat p

  (** val of_nat : nat -> n **)

  let of_nat = function
  | O -> N0
  | S n' -> Npos (Pos.of_succ_nat n')
 end

module Z =
 struct
  (** val double : z -> z **)

  let double = function
  | Z0 -> Z0
  | Zpos p -> Zpos (XO p)
  | Zneg p -> Zneg (XO p)

  (** val succ_double : z -> z **)

  let succ_double = function
  | Z0 -> Zpos XH
  | Zpos p -> Zpos (XI p)
  | Zneg p -> Zneg (Pos.pred_double p)

  (** val pred_double : z -> z **)

  let pred_double = function
  | Z0 -> Zneg XH
  | Zpos p -> Zpos (Pos.pred_double p)
  | Zneg p -> Zneg (XI p)

  (** val pos_sub : positive -> positive -> z **)

  let rec pos_sub x y =
    match x with
    | XI p ->
      (match y with
       | XI q -> double (pos_sub p q)
       | XO q -> succ_double (pos_sub p q)
       | XH -> Zpos (XO p))
    | XO p ->
      (match y with
       | XI q -> pred_double (pos_sub p q)
       | XO q -> double (pos_sub p q)
       | XH -> Zpos (Pos.pred_double p))
    | XH ->
      (match y with
       | XI q -> Zneg (XO q)
       | XO q -> Zneg (Pos.pred_double q)
       | XH -> Z0)

  (** val add : z -> z -> z **)

  let add x y =
    match x with
    | Z0 -> y
    | Zpos x' ->
      (match y with
       | Z0 -> x
       | Zpos y' -> Zpos (Pos.add x' y')
       | Zneg y' -> pos_sub x' y')
    | Zneg x' ->
      (match y with
       | Z0 -> x
       | Zpos y' -> pos_sub y' x'
       | Zneg y' -> Zneg (Pos.add x' y'))

  (** val opp : z -> z **)

  let opp = function
  | Z0 -> Z0
  | Zpos x0 -> Zneg x0
  | Zneg x0 -> Zpos x0

  (** val sub : z -> z -> z **)

  let sub m n0 =
    add m (opp n0)

  (** val compare : z -> z -> comparison **)

  let compare x y =
    match x with
    | Z0 -> (match y with
             | Z0 -> Eq
             | Zpos _ -> Lt
             | Zneg _ -> Gt)
    | Zpos x' -> (match y with
                  | Zpos y' -> Pos.compare x' y'
                  | _ -> Gt)
    | Zneg x' ->
      (match y with
       | Zneg y' -> compOpp (Pos.compare x' y')
       | _ -> Lt)

  (** val ltb : z -> z -> bool **)

  let ltb x y =
    match compare x y with
    | Lt -> true
    | _ -> false

  (** val eqb : z -> z -> bool **)

  let eqb x y =
    match x with
    | Z0 -> (match y with
             | Z0 -> true
             | _ -> false)
    | Zpos p -> (match y with
                 | Zpos q -> Pos.eqb p q
                 | _ -> false)
    | Zneg p -> (match y with
                 | Zneg q -> Pos.eqb p q
                 | _ -> false)

  (** val to_N : z -> n **)

  let to_N = function
  | Zpos p -> Npos p
  | _ -> N0

  (** val of_N : n -> z **)

  let of_N = function
  | N0 -> Z0
  | Npos p -> Zpos p
 end

type char = n

type str = char list

(** val str_eqb : str -> str -> bool **)

let rec str_eqb a b =
  match a with
  | [] -> (match b with
           | [] -> true
           | _ :: _ -> false)
  | x :: a' ->
    (match b with
     | [] -> false
     | y :: b' -> (&&) (N.eqb x y) (str_eqb a' b'))

(** val str_in : str -> str list -> bool **)

let str_in a l =
  existsb (str_eqb a) l

(** val lower_ascii : char -> char **)

let lower_ascii c =
  if (&&) (N.leb (Npos (XI (XO (XO (XO (XO (XO XH))))))) c)
       (N.leb c (Npos (XO (XI (XO (XI (XI (XO XH))))))))
  then N.add c (Npos (XO (XO (XO (XO (XO XH))))))
  else c

(** val lower_str : str -> str **)

let lower_str s =
  map lower_ascii s

(** val gen_lowercased : bool **)

let gen_lowercased =
  true

(** val gen_falsy : str list **)

let gen_falsy =
  [] :: (((Npos (XO (XO (XO (XO (XI XH)))))) :: []) :: (((Npos (XO (XI (XI
    (XO (XO (XI XH))))))) :: ((Npos (XI (XO (XO (XO (XO (XI
    XH))))))) :: ((Npos (XO (XO (XI (XI (XO (XI XH))))))) :: ((Npos (XI (XI
    (XO (XO (XI (XI XH))))))) :: ((Npos (XI (XO (XI (XO (XO (XI
    XH))))))) :: []))))) :: (((Npos (XO (XI (XI (XI (XO (XI
    XH))))))) :: ((Npos (XI (XI (XI (XI (XO (XI XH))))))) :: [])) :: [])))

(** val is_true_some : str -> bool **)

let is_true_some v =
  negb (str_in (if gen_lowercased then lower_str v else v) gen_falsy)

(** val s_open : str **)

let s_open =
  (Npos (XO (XO (XO (XI (XO XH)))))) :: []

(** val s_close : str **)

let s_close =
  (Npos (XI (XO (XO (XI (XO XH)))))) :: []

(** val s_and : str **)

let s_and =
  (Npos (XI (XO (XO (XO (XO (XI XH))))))) :: ((Npos (XO (XI (XI (XI (XO (XI
    XH))))))) :: ((Npos (XO (XO (XI (XO (XO (XI XH))))))) :: []))

(** val s_or : str **)

let s_or =
  (Npos (XI (XI (XI (XI (XO (XI XH))))))) :: ((Npos (XO (XI (XO (XO (XI (XI
    XH))))))) :: [])

type ftok =
| FNone
| FAnd
| FOr
| FValue

type res =
| Ok of bool
| Err of n
| Fuel

type st = { cnt : z; grp : str list; total : bool option;
            partial : bool option; found : ftok }

(** val init : st **)

let init =
  { cnt = Z0; grp = []; total = None; partial = None; found = FNone }

(** val unwrap_or : bool option -> bool -> bool **)

let unwrap_or o d =
  match o with
  | Some b -> b
  | None -> d

(** val put_value : st -> bool -> st option **)

let put_value s e =
  match s.found with
  | FOr ->
    Some { cnt = s.cnt; grp = s.grp; total = s.total; partial = (Some
      ((||) e (unwrap_or s.partial false))); found = FValue }
  | FValue -> None
  | _ ->
    Some { cnt = s.cnt; grp = s.grp; total = s.total; partial = (Some e);
      found = FValue }

(** val final : st -> bool **)

let final s =
  match s.total with
  | Some _ -> (&&) (unwrap_or s.partial true) (unwrap_or s.total true)
  | None ->
    (match s.partial with
     | Some _ -> (&&) (unwrap_or s.partial true) (unwrap_or s.total true)
     | None -> false)

(** val go : (str -> bool) -> (str list -> res) -> str list -> st -> res **)

let rec go truth ev l s =
  match l with
  | [] -> if Z.ltb Z0 s.cnt then Err (Npos XH) else Ok (final s)
  | a :: l' ->
    if str_eqb a s_open
    then go truth ev l' { cnt = (Z.add s.cnt (Zpos XH)); grp =
           (if Z.eqb s.cnt Z0 then [] else a :: s.grp); total = s.total;
           partial = s.partial; found = s.found }
    else if str_eqb a s_close
         then let c = Z.sub s.cnt (Zpos XH) in
              if Z.eqb c Z0
              then (match ev (rev s.grp) with
                    | Ok e ->
                      (match put_value { cnt = Z0; grp = []; total = s.total;
                               partial = s.partial; found = s.found } e with
                       | Some s' -> go truth ev l' s'
                       | None -> Err (Npos (XO XH)))
                    | x -> x)
              else if Z.ltb c Z0
                   then Err (Npos (XI XH))
                   else go truth ev l' { cnt = c; grp = (a :: s.grp); total =
                          s.total; partial = s.partial; found = s.found }
         else if Z.ltb Z0 s.cnt
              then go truth ev l' { cnt = s.cnt; grp = (a :: s.grp); total =
                     s.total; partial = s.partial; found = s.found }
              else if str_eqb a s_and
                   then (match s.found with
                         | FValue ->
                           let t =
                             (&&) (unwrap_or s.total true)
                               (unwrap_or s.partial true)
                           in
                           if t
                           then go truth ev l' { cnt = s.cnt; grp = s.grp;
                                  total = (Some t); partial = None; found =
                                  FAnd }
                           else Ok false
                         | _ -> Err (Npos (XO (XO XH))))
                   else if str_eqb a s_or
                        then (match s.found with
                              | FValue ->
                                go truth ev l' { cnt = s.cnt; grp = s.grp;
                                  total = s.total; partial = s.partial;
                                  found = FOr }
                              | _ -> Err (Npos (XI (XO XH))))
                        else (match put_value s (truth a) with
                              | Some s' -> go truth ev l' s'
                              | None -> Err (Npos (XO XH)))

(** val eval : (str -> bool) -> nat -> str list -> res **)

let rec eval truth fuel args =
  match fuel with
  | O -> Fuel
  | S fuel' ->
    (match args with
     | [] -> Ok false
     | _ :: _ -> go truth (eval truth fuel') args init)

(** val eval_slice : str list -> res **)

let eval_slice args =
  eval is_true_some (S (length args)) args

type cond =
| CAtom of atom
| CAnd of atom * cond
| COr of atom * cond
and atom =
| AVal of str
| AEmpty
| AGrp of cond

(** val toks : cond -> str list **)

let rec toks = function
| CAtom a -> atoks a
| CAnd (a, c0) -> app (atoks a) (s_and :: (toks c0))
| COr (a, c0) -> app (atoks a) (s_or :: (toks c0))

(** val atoks : atom -> str list **)

and atoks = function
| AVal s -> s :: []
| AEmpty -> s_open :: (s_close :: [])
| AGrp c -> s_open :: (app (toks c) (s_close :: []))

(** val semc : (str -> bool) -> cond -> bool -> bool **)

let semc truth =
  let rec semc0 c cur =
    match c with
    | CAtom a -> (||) cur (sema a)
    | CAnd (a, c0) -> (&&) ((||) cur (sema a)) (semc0 c0 false)
    | COr (a, c0) -> semc0 c0 ((||) cur (sema a))
  and sema = function
  | AVal s -> truth s
  | AEmpty -> false
  | AGrp c -> semc0 c false
  in semc0

(** val sem : (str -> bool) -> cond -> bool **)

let sem truth c =
  semc truth c false

(** val lit_0 : str **)

let lit_0 =
  (Npos (XO (XO (XO (XO (XI XH)))))) :: []

(** val lit_false : str **)

let lit_false =
  (Npos (XO (XI (XI (XO (XO (XI XH))))))) :: ((Npos (XI (XO (XO (XO (XO (XI
    XH))))))) :: ((Npos (XO (XO (XI (XI (XO (XI XH))))))) :: ((Npos (XI (XI
    (XO (XO (XI (XI XH))))))) :: ((Npos (XI (XO (XI (XO (XO (XI
    XH))))))) :: []))))

(** val lit_no : str **)

let lit_no =
  (Npos (XO (XI (XI (XI (XO (XI XH))))))) :: ((Npos (XI (XI (XI (XI (XO (XI
    XH))))))) :: [])

(** val falsy : str -> bool **)

let falsy v =
  let l = lower_str v in
  (||) ((||) ((||) (str_eqb l []) (str_eqb l lit_0)) (str_eqb l lit_false))
    (str_eqb l lit_no)
