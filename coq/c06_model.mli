
val negb : bool -> bool

type nat =
| O
| S of nat

val length : 'a1 list -> nat

val app : 'a1 list -> 'a1 list -> 'a1 list

type comparison =
| Eq
| Lt
| Gt

val compOpp : comparison -> comparison

val add : nat -> nat -> nat

val rev : 'a1 list -> 'a1 list

val map : ('a1 -> 'a2) -> 'a1 list -> 'a2 list

val existsb : ('a1 -> bool) -> 'a1 list -> bool

type positive =
| XI of positive
| XO of positive
| XH

type n =
| N0
| Npos of positive

type z =
| Z0
| Zpos of positive
| Zneg of positive

module Pos :
 sig
  val succ : positive -> positive

  val add : positive -> positive -> positive

  val add_carry : positive -> positive -> positive

  val pred_double : positive -> positive

  val compare_cont : comparison -> positive -> positive -> comparison

  val compare : positive -> positive -> comparison

  val eqb : positive -> positive -> bool

  val iter_op : ('a1 -> 'a1 -> 'a1) -> positive -> 'a1 -> 'a1

  val to_nat : positive -> nat

  val of_succ_nat : nat -> positive
 end

module N :
 sig
  val add : n -> n -> n

  val compare : n -> n -> comparison

  val eqb : n -> n -> bool

  val leb : n -> n -> bool

  val to_nat : n -> nat

  val of_nat : nat -> n
 end

module Z :
 sig
  val double : z -> z

  val succ_double : z -> z

  val pred_double : z -> z

  val pos_sub : positive -> positive -> z

  val add : z -> z -> z

  val opp : z -> z

  val sub : z -> z -> z

  val compare : z -> z -> comparison

  val ltb : z -> z -> bool

  val eqb : z -> z -> bool

  val to_N : z -> n

  val of_N : n -> z
 end

type char = n

type str = char list

val str_eqb : str -> str -> bool

val str_in : str -> str list -> bool

val lower_ascii : char -> char

val lower_str : str -> str

val gen_lowercased : bool

val gen_falsy : str list

val is_true_some : str -> bool

val s_open : str

val s_close : str

val s_and : str

val s_or : str

type ftok =
| FNone
| FAnd
| FOr
| FValue

type res =
| Ok of bool
| Err of n
| Fuel

type st = { cnt : z; grp : str list; total : bool option;
            partial : bool option; found : ftok }

val init : st

val unwrap_or : bool option -> bool -> bool

val put_value : st -> bool -> st option

val final : st -> bool

val go : (str -> bool) -> (str list -> res) -> str list -> st -> res

val eval : (str -> bool) -> nat -> str list -> res

val eval_slice : str list -> res

type cond =
| CAtom of atom
| CAnd of atom * cond
| COr of atom * cond
and atom =
| AVal of str
| AEmpty
| AGrp of cond

val toks : cond -> str list

val atoks : atom -> str list

val semc : (str -> bool) -> cond -> bool -> bool

val sem : (str -> bool) -> cond -> bool

val lit_0 : str

val lit_false : str

val lit_no : str

val falsy : str -> bool
