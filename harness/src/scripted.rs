//! Scripted commands for the runner checks (C03, C13; included with #[path] by the binaries).
//! A scripted command answers its k-th invocation with the k-th element of a generated result
//! list, optionally raising the halt flag first, and logs every invocation
//! (name, arguments, output variable, line).  Wire format: see ocaml/c03_driver.ml.
use dsverif::*;
use duckscript::types::command::{Command, CommandInvocationContext, CommandResult, GoToValue};
use duckscript::types::error::ScriptError;
use duckscript::types::runtime::Context;
use std::cell::RefCell;
use std::collections::HashMap;
use std::rc::Rc;
use std::sync::atomic::Ordering;

/// more invocations than this in one case: the watchdog panics (caught by `serve`)
pub const WATCHDOG_CALLS: usize = 20_000;

#[derive(Clone)]
pub struct SRes {
    pub res: CommandResult,
    pub halt: bool,
}

#[derive(Default)]
pub struct Shared {
    pub log: Vec<String>,
    pub calls: usize,
    /// pause after logging an invocation (C13 thread mode: keeps the log of endless programs short)
    pub sleep_us: u64,
    /// C13 thread mode: from this many invocations on a command waits (inside its run) until the
    /// other thread has raised the flag, so that the log stays bounded whatever the scheduler does
    pub wait_cap: usize,
}

#[derive(Clone)]
pub struct Scripted {
    pub name: String,
    pub results: Rc<Vec<SRes>>,
    pub cyclic: bool,
    pub pos: Rc<RefCell<usize>>,
    pub shared: Rc<RefCell<Shared>>,
}

pub fn opt_field(f: &str) -> Option<String> {
    if f == "N" {
        None
    } else {
        Some(dec_str(&f[1..]))
    }
}

fn parse_res(r: &str) -> SRes {
    let (halt, r) = if let Some(rest) = r.strip_prefix('!') { (true, rest) } else { (false, r) };
    let body = &r[1..];
    let two = || {
        let i = body.find(':').expect("goto");
        (&body[..i], &body[i + 1..])
    };
    let res = match r.as_bytes()[0] {
        b'C' => CommandResult::Continue(opt_field(body)),
        b'X' => CommandResult::Exit(opt_field(body)),
        b'E' => CommandResult::Error(dec_str(body)),
        b'K' => CommandResult::Crash(dec_str(body)),
        b'L' => {
            let (o, l) = two();
            CommandResult::GoTo(opt_field(o), GoToValue::Label(dec_str(l)))
        }
        b'J' => {
            let (o, n) = two();
            CommandResult::GoTo(opt_field(o), GoToValue::Line(n.parse().expect("line")))
        }
        _ => panic!("bad result"),
    };
    SRes { res, halt }
}

pub fn parse_cmds(field: &str, shared: &Rc<RefCell<Shared>>) -> Vec<Scripted> {
    if field == "-" {
        return vec![];
    }
    field
        .split(';')
        .map(|c| {
            let p: Vec<&str> = c.split('|').collect();
            let results: Vec<SRes> = if p[2] == "-" { vec![] } else { p[2].split(',').map(parse_res).collect() };
            Scripted {
                name: dec_str(p[0]),
                results: Rc::new(results),
                cyclic: p[1] == "1",
                pos: Rc::new(RefCell::new(0)),
                shared: shared.clone(),
            }
        })
        .collect()
}

pub fn parse_vars(field: &str) -> HashMap<String, String> {
    let mut m = HashMap::new();
    if field != "-" {
        for kv in field.split(';') {
            let i = kv.find('=').expect("var");
            m.insert(dec_str(&kv[..i]), dec_str(&kv[i + 1..]));
        }
    }
    m
}

pub fn show_vars(v: &HashMap<String, String>) -> String {
    let mut l: Vec<String> = v.iter().map(|(k, x)| format!("{}={}", enc_str(k), enc_str(x))).collect();
    l.sort();
    if l.is_empty() {
        "-".to_string()
    } else {
        l.join(";")
    }
}

impl Command for Scripted {
    fn name(&self) -> String {
        self.name.clone()
    }
    fn clone_and_box(&self) -> Box<dyn Command> {
        Box::new(self.clone())
    }
    fn run(&self, context: CommandInvocationContext) -> CommandResult {
        {
            let mut sh = self.shared.borrow_mut();
            sh.calls += 1;
            if sh.calls > WATCHDOG_CALLS {
                drop(sh);
                panic!("watchdog");
            }
            sh.log.push(format!(
                "{}|{}|{}|{}",
                enc_str(&self.name),
                enc_list(&context.arguments),
                enc_opt(&context.output_variable),
                context.line
            ));
        }
        let pause = self.shared.borrow().sleep_us;
        if pause > 0 {
            std::thread::sleep(std::time::Duration::from_micros(pause));
        }
        let (cap, calls) = {
            let sh = self.shared.borrow();
            (sh.wait_cap, sh.calls)
        };
        if cap > 0 && calls >= cap {
            let t0 = std::time::Instant::now();
            while !context.env.halt.load(Ordering::SeqCst) {
                std::thread::sleep(std::time::Duration::from_micros(100));
                if t0.elapsed().as_secs() > 30 {
                    panic!("watchdog");
                }
            }
        }
        let mut pos = self.pos.borrow_mut();
        if *pos >= self.results.len() {
            if self.cyclic && !self.results.is_empty() {
                *pos = 0;
            } else {
                return CommandResult::Crash("exhausted".to_string());
            }
        }
        let r = self.results[*pos].clone();
        *pos += 1;
        if r.halt {
            context.env.halt.store(true, Ordering::SeqCst);
        }
        r.res
    }
}

pub fn make_context(cmds: &[Scripted], vars: HashMap<String, String>) -> Context {
    let mut context = Context::new();
    for c in cmds {
        context.commands.set(Box::new(c.clone())).expect("register scripted command");
    }
    context.variables = vars;
    context
}

pub fn show_log(shared: &Rc<RefCell<Shared>>) -> String {
    let sh = shared.borrow();
    if sh.log.is_empty() {
        "-".to_string()
    } else {
        sh.log.join(";")
    }
}

/// result line shared with the model driver: status, detail, line, source, log, variables
pub fn show_result(r: Result<Context, ScriptError>, shared: &Rc<RefCell<Shared>>) -> String {
    match r {
        Ok(ctx) => format!("OK\t-\t-\t-\t{}\t{}", show_log(shared), show_vars(&ctx.variables)),
        Err(ScriptError::Runtime(msg, meta)) => {
            let (line, src) = match meta {
                Some(m) => (
                    m.line.map(|l| l.to_string()).unwrap_or("N".to_string()),
                    enc_opt(&m.source),
                ),
                None => ("NOMETA".to_string(), "NOMETA".to_string()),
            };
            format!("ERR\tMSG {}\t{}\t{}\t{}\t-", enc_str(&msg), line, src, show_log(shared))
        }
        Err(e) => format!("ERR\tKIND {}\t-\t-\t{}\t-", script_error_kind(&e), show_log(shared)),
    }
}
