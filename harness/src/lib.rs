//! Shared helpers of the correspondence harness: wire format, context construction, capture
//! commands, panic capture.
use duckscript::types::command::{Command, CommandInvocationContext, CommandResult};
use duckscript::types::error::ScriptError;
use duckscript::types::runtime::Context;
use std::io::{self, BufRead, Write};
use std::panic;

pub fn dec_str(field: &str) -> String {
    if field == "e" {
        String::new()
    } else {
        field
            .split('.')
            .map(|x| char::from_u32(x.parse::<u32>().expect("code point")).expect("scalar"))
            .collect()
    }
}
pub fn enc_str(s: &str) -> String {
    if s.is_empty() {
        "e".to_string()
    } else {
        s.chars().map(|c| (c as u32).to_string()).collect::<Vec<_>>().join(".")
    }
}
pub fn dec_list(field: &str) -> Vec<String> {
    if field == "-" {
        vec![]
    } else {
        field.split(' ').map(dec_str).collect()
    }
}
pub fn enc_list(l: &[String]) -> String {
    if l.is_empty() {
        "-".to_string()
    } else {
        l.iter().map(|s| enc_str(s)).collect::<Vec<_>>().join(" ")
    }
}
pub fn enc_opt(o: &Option<String>) -> String {
    match o {
        Some(s) => format!("S{}", enc_str(s)),
        None => "N".to_string(),
    }
}

/// Reads stdin line by line, calls `f` on the TAB-separated fields, prints the returned line.
/// A panic inside `f` is caught and printed as `PANIC`.
pub fn serve<F: Fn(&[&str]) -> String + panic::RefUnwindSafe>(f: F) {
    panic::set_hook(Box::new(|_| {}));
    let stdin = io::stdin();
    let stdout = io::stdout();
    let mut out = io::BufWriter::new(stdout.lock());
    for line in stdin.lock().lines() {
        let line = line.expect("stdin");
        let fields: Vec<&str> = line.split('\t').collect();
        let r = panic::catch_unwind(|| f(&fields));
        match r {
            Ok(s) => writeln!(out, "{}", s).unwrap(),
            Err(_) => writeln!(out, "PANIC").unwrap(),
        }
        // one flush per answer: the runner attributes a stall / a death to the first line without an answer
        out.flush().unwrap();
    }
    out.flush().unwrap();
}

/// `on_error` replacement that records the first and the latest error in plain variables.
#[derive(Clone)]
pub struct CaptureOnError;
impl Command for CaptureOnError {
    fn name(&self) -> String {
        "on_error".to_string()
    }
    fn clone_and_box(&self) -> Box<dyn Command> {
        Box::new(self.clone())
    }
    fn run(&self, context: CommandInvocationContext) -> CommandResult {
        let a = &context.arguments;
        let msg = a.get(0).cloned().unwrap_or_default();
        let line = a.get(1).cloned().unwrap_or_default();
        let src = a.get(2).cloned().unwrap_or_default();
        if !context.variables.contains_key("__first_err") {
            context.variables.insert("__first_err".to_string(), msg.clone());
            context.variables.insert("__first_err_line".to_string(), line.clone());
        }
        context.variables.insert("__last_err".to_string(), msg);
        context.variables.insert("__last_err_line".to_string(), line);
        context.variables.insert("__last_err_src".to_string(), src);
        let n: usize = context
            .variables
            .get("__err_count")
            .and_then(|v| v.parse().ok())
            .unwrap_or(0);
        context.variables.insert("__err_count".to_string(), (n + 1).to_string());
        CommandResult::Continue(None)
    }
}

thread_local! {
    static BASE: std::cell::RefCell<Option<(Context, Context)>> = std::cell::RefCell::new(None);
}

fn fresh_sdk_context(capture_errors: bool) -> Context {
    let mut context = Context::new();
    duckscriptsdk::load(&mut context.commands).expect("sdk load");
    if capture_errors {
        context.commands.remove("on_error");
        context.commands.set(Box::new(CaptureOnError)).expect("set on_error");
    }
    context
}

/// Context with the SDK loaded (cloned from a per-thread base: loading the SDK costs ~0.4 ms).
/// With `capture_errors` the SDK's on_error is replaced by `CaptureOnError`.
pub fn sdk_context(capture_errors: bool) -> Context {
    BASE.with(|b| {
        let mut b = b.borrow_mut();
        if b.is_none() {
            *b = Some((fresh_sdk_context(false), fresh_sdk_context(true)));
        }
        let pair = b.as_ref().unwrap();
        if capture_errors {
            pair.1.clone()
        } else {
            pair.0.clone()
        }
    })
}

pub fn script_error_kind(e: &ScriptError) -> String {
    match e {
        ScriptError::ErrorReadingFile(_, _) => "ReadFile".to_string(),
        ScriptError::Initialization(_) => "Init".to_string(),
        ScriptError::Runtime(_, _) => "Runtime".to_string(),
        ScriptError::PreProcessNoCommandFound(_) => "PreNoCommand".to_string(),
        ScriptError::ControlWithoutValidValue(_) => "ControlWithoutValidValue".to_string(),
        ScriptError::InvalidControlLocation(_) => "InvalidControlLocation".to_string(),
        ScriptError::MissingEndQuotes(_) => "MissingEndQuotes".to_string(),
        ScriptError::MissingOutputVariableName(_) => "MissingOutputVariableName".to_string(),
        ScriptError::InvalidEqualsLocation(_) => "InvalidEqualsLocation".to_string(),
        ScriptError::InvalidQuotesLocation(_) => "InvalidQuotesLocation".to_string(),
        ScriptError::EmptyLabel(_) => "EmptyLabel".to_string(),
        ScriptError::UnknownPreProcessorCommand(_) => "UnknownPreProcessorCommand".to_string(),
        // a variant added upstream must not stop the harness from building: it is reported as its own kind
        #[allow(unreachable_patterns)]
        _ => "OtherKind".to_string(),
    }
}

pub mod parsefmt;
