//! Canonical wire form of `parser::parse_text` results (shared by the C01 and C08 harness
//! binaries) and a `serve` variant that keeps the process' own stdout (the `!print`
//! pre-processor command writes there while parsing) out of the result stream.
//!
//! result: `OK <n>;<instr>;...` | `ERR <kind> <line>`
//! instr:  `<line>,<src>,E` | `<line>,<src>,P,<command>,<args>` | `<line>,<src>,S,<label>,<output>,<command>,<args>`
//! optional string: `N` | `S<str>`; args: `N` | `A<list>`; line: decimal or `N`
use crate::{enc_list, enc_opt, script_error_kind};
use duckscript::types::error::ScriptError;
use duckscript::types::instruction::{Instruction, InstructionMetaInfo, InstructionType};
use std::fs::File;
use std::io::{self, BufRead, Write};
use std::os::unix::io::FromRawFd;
use std::panic;

fn enc_args(a: &Option<Vec<String>>) -> String {
    match a {
        None => "N".to_string(),
        Some(l) => format!("A{}", enc_list(l)),
    }
}

fn enc_line(l: &Option<usize>) -> String {
    match l {
        None => "N".to_string(),
        Some(n) => n.to_string(),
    }
}

pub fn fmt_instruction(i: &Instruction) -> String {
    let head = format!("{},{}", enc_line(&i.meta_info.line), enc_opt(&i.meta_info.source));
    match &i.instruction_type {
        InstructionType::Empty => format!("{},E", head),
        InstructionType::PreProcess(p) => format!("{},P,{},{}", head, enc_opt(&p.command), enc_args(&p.arguments)),
        InstructionType::Script(s) => format!(
            "{},S,{},{},{},{}",
            head,
            enc_opt(&s.label),
            enc_opt(&s.output),
            enc_opt(&s.command),
            enc_args(&s.arguments)
        ),
    }
}

pub fn error_meta(e: &ScriptError) -> Option<&InstructionMetaInfo> {
    match e {
        ScriptError::ErrorReadingFile(_, _) => None,
        ScriptError::Initialization(_) => None,
        ScriptError::Runtime(_, m) => m.as_ref(),
        ScriptError::PreProcessNoCommandFound(m)
        | ScriptError::ControlWithoutValidValue(m)
        | ScriptError::InvalidControlLocation(m)
        | ScriptError::MissingEndQuotes(m)
        | ScriptError::MissingOutputVariableName(m)
        | ScriptError::InvalidEqualsLocation(m)
        | ScriptError::InvalidQuotesLocation(m)
        | ScriptError::EmptyLabel(m)
        | ScriptError::UnknownPreProcessorCommand(m) => Some(m),
        #[allow(unreachable_patterns)]
        _ => None,
    }
}

pub fn fmt_parse_result(r: &Result<Vec<Instruction>, ScriptError>) -> String {
    match r {
        Ok(is) => {
            let mut parts = vec![format!("OK {}", is.len())];
            parts.extend(is.iter().map(fmt_instruction));
            parts.join(";")
        }
        Err(e) => {
            let line = match error_meta(e) {
                Some(m) => enc_line(&m.line),
                None => "N".to_string(),
            };
            format!("ERR {} {}", script_error_kind(e), line)
        }
    }
}

/// 62-bit rolling digest of result lines (the OCaml driver computes the same function)
pub fn digest_add(h: u64, s: &str) -> u64 {
    const MASK: u64 = 0x3FFF_FFFF_FFFF_FFFF;
    let mut h = h;
    for b in s.bytes() {
        h = h.wrapping_mul(31).wrapping_add(b as u64) & MASK;
    }
    h.wrapping_mul(31).wrapping_add(10) & MASK
}

extern "C" {
    fn dup(fd: i32) -> i32;
    fn dup2(old: i32, new: i32) -> i32;
}

/// Like `dsverif::serve`, but result lines go to a private duplicate of the original stdout and
/// file descriptor 1 is pointed at /dev/null first, so that anything the code under test prints
/// (`!print`) cannot reach or reorder the result stream.
pub fn serve_quiet<F: Fn(&[&str]) -> String + panic::RefUnwindSafe>(f: F) {
    panic::set_hook(Box::new(|_| {}));
    io::stdout().flush().ok();
    let saved = unsafe { dup(1) };
    assert!(saved >= 0, "dup(1)");
    let devnull = File::options().write(true).open("/dev/null").expect("/dev/null");
    {
        use std::os::unix::io::AsRawFd;
        assert!(unsafe { dup2(devnull.as_raw_fd(), 1) } >= 0, "dup2");
    }
    let mut out = io::BufWriter::new(unsafe { File::from_raw_fd(saved) });
    let stdin = io::stdin();
    for line in stdin.lock().lines() {
        let line = line.expect("stdin");
        let fields: Vec<&str> = line.split('\t').collect();
        let r = panic::catch_unwind(|| f(&fields));
        match r {
            Ok(s) => writeln!(out, "{}", s).unwrap(),
            Err(_) => writeln!(out, "PANIC").unwrap(),
        }
    }
    out.flush().unwrap();
}
