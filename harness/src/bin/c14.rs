//! C14: include files on a real directory tree.
//! input (TAB-separated):
//!   F <root> <main> <disk spec> ...      parse_file(main) with cwd = root
//!   R <root> <main> <disk spec> <text>   run_script_file(main) and run_script(text)
//! <root> is an absolute directory below .../.cache/c14/ ; it is created, populated from the disk
//! spec (space-separated: f<path>:<content> | d<path> | l<path>:<target>, paths relative to root),
//! used and removed again for every case.
//!   K <root> <unused> <disk spec> <paths>   for every path: fs::canonicalize ; parser::parse_file  (checks the check's OS emulation)
//!   U <source> <argument>                Path::parent, the pre-processor's join, PathBuf::push   (checks the lexical path model)
//! output F:  OK <instr>... | ERR <kind> <line> <source>       (same syntax as ocaml/c14_driver.ml)
//! output R:  <summary of the file run> TAB <summary of the text run>
//!   summary: <OK|ERR kind>|<emitted argument lists>|<variables>|<errors seen by on_error: msg@line@source>
use dsverif::*;
use duckscript::parser;
use duckscript::runner;
use duckscript::types::command::{Command, CommandInvocationContext, CommandResult};
use duckscript::types::error::ScriptError;
use duckscript::types::instruction::{Instruction, InstructionType};
use duckscript::types::env::Env;
use std::cell::RefCell;
use std::sync::atomic::{AtomicBool, Ordering};
use std::sync::Arc;
use std::fs;
use std::io::{self, BufRead, Write};
use std::panic;
use std::path::Path;

extern "C" {
    fn dup(fd: i32) -> i32;
    fn dup2(oldfd: i32, newfd: i32) -> i32;
    fn close(fd: i32) -> i32;
}

thread_local! {
    static EMITTED: RefCell<Vec<String>> = RefCell::new(vec![]);
    static ERRORS: RefCell<Vec<String>> = RefCell::new(vec![]);
}

#[derive(Clone)]
struct Emit;
impl Command for Emit {
    fn name(&self) -> String {
        "emit".to_string()
    }
    fn clone_and_box(&self) -> Box<dyn Command> {
        Box::new(self.clone())
    }
    fn run(&self, context: CommandInvocationContext) -> CommandResult {
        EMITTED.with(|e| {
            let mut e = e.borrow_mut();
            if e.len() < 20000 {
                e.push(enc_list(&context.arguments));
            }
        });
        CommandResult::Continue(Some(context.arguments.len().to_string()))
    }
}

#[derive(Clone)]
struct Boom;
impl Command for Boom {
    fn name(&self) -> String {
        "boom".to_string()
    }
    fn clone_and_box(&self) -> Box<dyn Command> {
        Box::new(self.clone())
    }
    fn run(&self, context: CommandInvocationContext) -> CommandResult {
        CommandResult::Error(format!("boom:{}", context.arguments.join(",")))
    }
}

#[derive(Clone)]
struct OnError;
impl Command for OnError {
    fn name(&self) -> String {
        "on_error".to_string()
    }
    fn clone_and_box(&self) -> Box<dyn Command> {
        Box::new(self.clone())
    }
    fn run(&self, context: CommandInvocationContext) -> CommandResult {
        let a = &context.arguments;
        let g = |i: usize| a.get(i).cloned().unwrap_or_default();
        ERRORS.with(|e| {
            let mut e = e.borrow_mut();
            if e.len() < 20000 {
                e.push(format!("{}@{}@{}", enc_str(&g(0)), g(1), enc_str(&g(2))));
            }
        });
        CommandResult::Continue(None)
    }
}

fn opt_s(o: &Option<String>) -> String {
    enc_opt(o)
}
fn args_s(a: &Option<Vec<String>>) -> String {
    match a {
        None => "N".to_string(),
        Some(l) => format!("A{}", l.iter().map(|s| enc_str(s)).collect::<Vec<_>>().join(",")),
    }
}
fn instr_s(i: &Instruction) -> String {
    let t = match &i.instruction_type {
        InstructionType::Empty => "E".to_string(),
        InstructionType::PreProcess(p) => format!("P;{};{}", opt_s(&p.command), args_s(&p.arguments)),
        InstructionType::Script(s) => format!(
            "S;{};{};{};{}",
            opt_s(&s.label),
            opt_s(&s.output),
            opt_s(&s.command),
            args_s(&s.arguments)
        ),
    };
    let line = match i.meta_info.line {
        Some(l) => l.to_string(),
        None => "N".to_string(),
    };
    format!("{};{};{}", line, opt_s(&i.meta_info.source), t)
}
fn err_s(e: &ScriptError) -> String {
    let kind = script_error_kind(e);
    let (line, source) = match e {
        ScriptError::ErrorReadingFile(file, _) => (0, Some(file.clone())),
        ScriptError::Initialization(_) => (0, None),
        ScriptError::Runtime(_, m) => match m {
            Some(m) => (m.line.unwrap_or(0), m.source.clone()),
            None => (0, None),
        },
        ScriptError::PreProcessNoCommandFound(m)
        | ScriptError::ControlWithoutValidValue(m)
        | ScriptError::InvalidControlLocation(m)
        | ScriptError::MissingEndQuotes(m)
        | ScriptError::MissingOutputVariableName(m)
        | ScriptError::InvalidEqualsLocation(m)
        | ScriptError::InvalidQuotesLocation(m)
        | ScriptError::EmptyLabel(m)
        | ScriptError::UnknownPreProcessorCommand(m) => (m.line.unwrap_or(0), m.source.clone()),
        #[allow(unreachable_patterns)]
        _ => (0, None),
    };
    format!("ERR {} {} {}", kind, line, opt_s(&source))
}

fn populate(root: &str, disk: &str) -> io::Result<()> {
    if !root.contains("/.cache/c14/") || root.contains("..") {
        return Err(io::Error::new(io::ErrorKind::Other, "refusing root outside .cache/c14"));
    }
    let _ = fs::remove_dir_all(root);
    fs::create_dir_all(root)?;
    if disk == "-" {
        return Ok(());
    }
    for entry in disk.split(' ') {
        let (tag, rest) = entry.split_at(1);
        let parts: Vec<&str> = rest.split(':').collect();
        let p = Path::new(root).join(dec_str(parts[0]));
        match tag {
            "d" => fs::create_dir_all(&p)?,
            "f" => {
                if let Some(parent) = p.parent() {
                    fs::create_dir_all(parent)?;
                }
                fs::write(&p, dec_str(parts[1]))?;
            }
            "l" => {
                if let Some(parent) = p.parent() {
                    fs::create_dir_all(parent)?;
                }
                std::os::unix::fs::symlink(dec_str(parts[1]), &p)?;
            }
            _ => return Err(io::Error::new(io::ErrorKind::Other, "bad disk entry")),
        }
    }
    Ok(())
}

fn context() -> duckscript::types::runtime::Context {
    let mut c = sdk_context(false);
    c.commands.remove("on_error");
    c.commands.set(Box::new(OnError)).expect("on_error");
    c.commands.set(Box::new(Emit)).expect("emit");
    c.commands.set(Box::new(Boom)).expect("boom");
    c
}

/// runs `f` with a halt flag that a watchdog sets after 3 s (a generated script never loops; a
/// looping one must not take the machine down); returns TIMEOUT when the watchdog fired
fn guarded<F: FnOnce(Env) -> Result<duckscript::types::runtime::Context, ScriptError>>(f: F) -> String {
    let halt = Arc::new(AtomicBool::new(false));
    let done = Arc::new(AtomicBool::new(false));
    let (h2, d2) = (halt.clone(), done.clone());
    let t = std::thread::spawn(move || {
        for _ in 0..300 {
            if d2.load(Ordering::SeqCst) {
                return;
            }
            std::thread::sleep(std::time::Duration::from_millis(10));
        }
        h2.store(true, Ordering::SeqCst);
    });
    let r = f(Env::new(None, None, Some(halt.clone())));
    done.store(true, Ordering::SeqCst);
    let _ = t.join();
    let s = summary(r);
    if halt.load(Ordering::SeqCst) {
        "TIMEOUT|||".to_string()
    } else {
        s
    }
}

fn summary(r: Result<duckscript::types::runtime::Context, ScriptError>) -> String {
    let emitted = EMITTED.with(|e| e.borrow_mut().drain(..).collect::<Vec<_>>().join(","));
    let errors = ERRORS.with(|e| e.borrow_mut().drain(..).collect::<Vec<_>>().join(","));
    match r {
        Ok(ctx) => {
            let mut vars: Vec<String> =
                ctx.variables.iter().map(|(k, v)| format!("{}={}", enc_str(k), enc_str(v))).collect();
            vars.sort();
            format!("OK|{}|{}|{}", emitted, vars.join(","), errors)
        }
        Err(e) => format!("{}|{}||{}", err_s(&e), emitted, errors),
    }
}

fn handle(f: &[&str]) -> String {
    match f[0] {
        "F" | "R" => {
            let root = dec_str(f[1]);
            let main = dec_str(f[2]);
            if let Err(e) = populate(&root, f[3]) {
                let _ = fs::remove_dir_all(&root);
                return format!("SETUP-FAILED {}", enc_str(&e.to_string()));
            }
            std::env::set_current_dir(&root).expect("chdir");
            let out = if f[0] == "F" {
                match parser::parse_file(&main) {
                    Ok(is) => {
                        let mut v = vec!["OK".to_string()];
                        v.extend(is.iter().map(instr_s));
                        v.join(" ")
                    }
                    Err(e) => err_s(&e),
                }
            } else {
                let text = dec_str(f[4]);
                let a = guarded(|env| runner::run_script_file(&main, context(), Some(env)));
                let b = guarded(|env| runner::run_script(&text, context(), Some(env)));
                format!("{}\t{}", a, b)
            };
            out
        }
        // unit-level check of the check's OS emulation: canonicalize + parse_file for every listed path
        "K" => {
            let root = dec_str(f[1]);
            if let Err(e) = populate(&root, f[3]) {
                let _ = fs::remove_dir_all(&root);
                return format!("SETUP-FAILED {}", enc_str(&e.to_string()));
            }
            std::env::set_current_dir(&root).expect("chdir");
            dec_list(f[4])
                .iter()
                .map(|p| {
                    let c = match fs::canonicalize(p) {
                        Ok(c) => format!("S{}", enc_str(&c.to_string_lossy())),
                        Err(_) => "N".to_string(),
                    };
                    let r = match parser::parse_file(p) {
                        Ok(is) => {
                            let mut v = vec!["OK".to_string()];
                            v.extend(is.iter().map(instr_s));
                            v.join(" ")
                        }
                        Err(e) => err_s(&e),
                    };
                    format!("{};{}", c, r)
                })
                .collect::<Vec<_>>()
                .join("|")
        }
        // unit-level check of the lexical path model against std::path (no file system involved):
        // Path::parent(source); the pre-processor's join (lines 25-38 without canonicalize); PathBuf::push
        "U" => {
            let src = dec_str(f[1]);
            let arg = dec_str(f[2]);
            let pb = std::path::PathBuf::from(&src);
            let par = match pb.parent() {
                Some(p) => format!("S{}", enc_str(&p.to_string_lossy())),
                None => "N".to_string(),
            };
            let joined = match pb.parent() {
                Some(path) => {
                    let mut b = path.to_path_buf();
                    b.push(&arg);
                    b.to_string_lossy().into_owned()
                }
                None => arg.to_string(),
            };
            let mut pushed = std::path::PathBuf::from(&src);
            pushed.push(&arg);
            format!("{}\t{}\t{}", par, enc_str(&joined), enc_str(&pushed.to_string_lossy()))
        }
        _ => "BADLINE".to_string(),
    }
}

fn main() {
    panic::set_hook(Box::new(|_| {}));
    let home = std::env::current_dir().expect("cwd");
    let stdin = io::stdin();
    for line in stdin.lock().lines() {
        let line = line.expect("stdin");
        let fields: Vec<&str> = line.split('\t').collect();
        // `!print` writes to the process's stdout: send fd 1 to /dev/null while the library runs
        io::stdout().flush().unwrap();
        let devnull = fs::OpenOptions::new().write(true).open("/dev/null").expect("devnull");
        let saved = unsafe { dup(1) };
        unsafe {
            dup2(std::os::unix::io::AsRawFd::as_raw_fd(&devnull), 1);
        }
        let r = panic::catch_unwind(|| handle(&fields));
        io::stdout().flush().unwrap();
        unsafe {
            dup2(saved, 1);
            close(saved);
        }
        let _ = std::env::set_current_dir(&home);
        if fields.len() > 1 && (fields[0] == "F" || fields[0] == "R" || fields[0] == "K") {
            let root = dec_str(fields[1]);
            if root.contains("/.cache/c14/") && !root.contains("..") {
                let _ = fs::remove_dir_all(&root);
            }
        }
        let mut out = io::stdout().lock();
        match r {
            Ok(s) => writeln!(out, "{}", s).unwrap(),
            Err(_) => writeln!(out, "PANIC").unwrap(),
        }
        out.flush().unwrap();
    }
}
