//! C03: run a generated program over scripted commands through the real runner.
//! input:  P <src> <halt_at> <fuel> <prog> <cmds> <vars> <text>     (see ocaml/c03_driver.ml)
//!         src = N: runner::run_script(text); src = S<path>: the text is written to <path> and run
//!         with runner::run_script_file.  <prog>, <halt_at>, <fuel> are for the model only.
//! output: OK - - - <log> <vars>  |  ERR MSG <message> <line> <source> <log> -
#[path = "../scripted.rs"]
mod scripted;
use dsverif::*;
use duckscript::runner;
use scripted::*;
use std::cell::RefCell;
use std::rc::Rc;

fn main() {
    serve(|f| match f[0] {
        "P" if f.len() >= 8 => {
            let shared = Rc::new(RefCell::new(Shared::default()));
            let cmds = parse_cmds(f[5], &shared);
            let context = make_context(&cmds, parse_vars(f[6]));
            let text = dec_str(f[7]);
            let r = match opt_field(f[1]) {
                None => runner::run_script(&text, context, None),
                Some(path) => {
                    if let Some(dir) = std::path::Path::new(&path).parent() {
                        let _ = std::fs::create_dir_all(dir);
                    }
                    std::fs::write(&path, &text).expect("write script file");
                    let r = runner::run_script_file(&path, context, None);
                    let _ = std::fs::remove_file(&path);
                    r
                }
            };
            show_result(r, &shared)
        }
        _ => "BADLINE".to_string(),
    });
}
