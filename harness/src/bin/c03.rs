//! C03: run a generated program over scripted commands through the real runner.
//! input:  P <src> <halt_at> <fuel> <prog> <cmds> <vars> <text>     (see ocaml/c03_driver.ml)
//!         src = N: runner::run_script(text); src = S<path>: the text is written to <path> and run
//!         with runner::run_script_file.  <prog>, <halt_at>, <fuel> are for the model only.
//!         B ...: the same as P for programs whose arguments carry ${x} / %{x} / \${x} templates (the real runner
//!         always binds); the text is first checked to parse back to <prog>
//! output: OK - - - <log> <vars>  |  ERR MSG <message> <line> <source> <log> -
#[path = "../scripted.rs"]
mod scripted;
use dsverif::*;
use duckscript::runner;
use scripted::*;
use std::cell::RefCell;
use std::rc::Rc;

/// compares duckscript::parser::parse_text(text) with the <prog> field (label, output, command, arguments per line)
fn render_mismatch(prog: &str, text: &str) -> Option<String> {
    use duckscript::types::instruction::InstructionType;
    let want: Vec<&str> = if prog == "-" { vec![] } else { prog.split(';').collect() };
    let got = match duckscript::parser::parse_text(text) {
        Ok(g) => g,
        Err(e) => return Some(format!("parse-error-{}", script_error_kind(&e))),
    };
    if got.len() != want.len() {
        return Some(format!("length-{}-{}", got.len(), want.len()));
    }
    for (k, (g, w)) in got.iter().zip(want.iter()).enumerate() {
        let shown = match &g.instruction_type {
            InstructionType::Empty => "E".to_string(),
            InstructionType::PreProcess(_) => "P".to_string(),
            InstructionType::Script(s) => format!(
                "{}|{}|{}|{}",
                enc_opt(&s.label),
                enc_opt(&s.output),
                enc_opt(&s.command),
                enc_list(&s.arguments.clone().unwrap_or_default())
            ),
        };
        if &shown != w {
            return Some(format!("line-{}", k));
        }
    }
    None
}

fn main() {
    serve(|f| match f[0] {
        "P" | "B" if f.len() >= 8 => {
            // B: arguments carry ${x} / %{x} / \${x} templates; the text must parse back to exactly the
            // instructions of <prog> (a check of the Python renderer, not of the library)
            if f[0] == "B" {
                if let Some(m) = render_mismatch(f[4], &dec_str(f[7])) {
                    return format!("RENDER-MISMATCH {}", m);
                }
            }
            let shared = Rc::new(RefCell::new(Shared::default()));
            let cmds = parse_cmds(f[5], &shared);
            let context = make_context(&cmds, parse_vars(f[6]));
            let text = dec_str(f[7]);
            let r = match opt_field(f[1]) {
                None => runner::run_script(&text, context, None),
                Some(path) => {
                    if let Some(dir) = std::path::Path::new(&path).parent() {
                        let _ = std::fs::create_dir_all(dir);
                    }
                    std::fs::write(&path, &text).expect("write script file");
                    let r = runner::run_script_file(&path, context, None);
                    let _ = std::fs::remove_file(&path);
                    r
                }
            };
            show_result(r, &shared)
        }
        _ => "BADLINE".to_string(),
    });
}
