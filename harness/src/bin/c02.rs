//! C02: what a command receives for given written arguments and variables.
//! input:  R <env> <written arguments>   the instruction is built directly (no line parser) and run
//!                                       with duckscript::runner::run_instruction
//!         S <env> <written arguments>   the arguments are written in quotes into a one-line script
//!                                       run with duckscript::runner::run_script (output SKIP when the
//!                                       line does not parse back to exactly these written arguments)
//! output: A<list>  arguments received by the capture command | NOCALL | X<text>
//! env: "-" or space-separated name:value
use dsverif::*;
use duckscript::runner;
use duckscript::types::command::{Command, CommandInvocationContext, CommandResult};
use duckscript::types::env::Env;
use duckscript::types::instruction::{
    Instruction, InstructionMetaInfo, InstructionType, ScriptInstruction,
};
use duckscript::types::runtime::Context;

#[derive(Clone)]
struct Capture;
impl Command for Capture {
    fn name(&self) -> String {
        "capture".to_string()
    }
    fn clone_and_box(&self) -> Box<dyn Command> {
        Box::new(self.clone())
    }
    fn run(&self, context: CommandInvocationContext) -> CommandResult {
        context
            .variables
            .insert("__captured".to_string(), enc_list(&context.arguments));
        CommandResult::Continue(None)
    }
}

fn context_with(env: &str) -> Context {
    let mut context = Context::new();
    context.commands.set(Box::new(Capture)).expect("set capture");
    if env != "-" {
        for pair in env.split(' ') {
            let mut it = pair.split(':');
            let n = dec_str(it.next().expect("name"));
            let v = dec_str(it.next().expect("value"));
            context.variables.insert(n, v);
        }
    }
    context
}

fn quoted(arg: &str) -> String {
    let mut s = String::from("\"");
    for c in arg.chars() {
        match c {
            '"' => s.push_str("\\\""),
            '\\' => s.push_str("\\\\"),
            '\n' => s.push_str("\\n"),
            '\r' => s.push_str("\\r"),
            _ => s.push(c),
        }
    }
    s.push('"');
    s
}

fn main() {
    serve(|f| match f[0] {
        "R" => {
            let mut context = context_with(f[1]);
            let args = dec_list(f[2]);
            let mut si = ScriptInstruction::new();
            si.command = Some("capture".to_string());
            si.arguments = if args.is_empty() { None } else { Some(args) };
            let instruction = Instruction {
                meta_info: InstructionMetaInfo::new(),
                instruction_type: InstructionType::Script(si),
            };
            let mut env = Env::default();
            let (result, _) = runner::run_instruction(
                &mut context.commands,
                &mut context.variables,
                &mut context.state,
                &vec![],
                instruction,
                0,
                &mut env,
            );
            match result {
                CommandResult::Continue(None) => match context.variables.get("__captured") {
                    Some(a) => format!("A{}", a),
                    None => "NOCALL".to_string(),
                },
                other => format!("X{}", enc_str(&format!("{:?}", other))),
            }
        }
        "S" => {
            let context = context_with(f[1]);
            let args = dec_list(f[2]);
            let mut line = String::from("capture");
            for a in &args {
                line.push(' ');
                line.push_str(&quoted(a));
            }
            // the line parser is C01's business: only use lines that carry exactly these arguments
            match duckscript::parser::parse_text(&line) {
                Ok(instructions) => {
                    let ok = instructions.len() == 1
                        && match &instructions[0].instruction_type {
                            InstructionType::Script(si) => {
                                si.command.as_deref() == Some("capture")
                                    && si.output.is_none()
                                    && si.label.is_none()
                                    && si.arguments.clone().unwrap_or_default() == args
                            }
                            _ => false,
                        };
                    if !ok {
                        return "SKIP".to_string();
                    }
                }
                Err(_) => return "SKIP".to_string(),
            }
            match runner::run_script(&line, context, None) {
                Ok(ctx) => match ctx.variables.get("__captured") {
                    Some(a) => format!("A{}", a),
                    None => "NOCALL".to_string(),
                },
                Err(e) => format!("X{}", enc_str(&e.to_string())),
            }
        }
        _ => "BADLINE".to_string(),
    });
}
