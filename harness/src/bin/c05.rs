//! C05 (same protocol as c04.rs): run a generated flow-control script on the real SDK and report what the property observes.
//! input:  R <script lines: list> <initial variables: list n v n v ..>
//! output: OK|T:<trace>|V:<vars>|IF:<if meta cache>|WH:<while meta cache>|FOR:<for meta cache>|END:<end table>
//!         ERROR <line> <n>   (a command returned Error; line = 0-based line of the first one)
//!         CRASH <kind>       (run_script returned Err)
//! input:  REG <names: list>   output: for every name the full name of the command it runs ("?" if none)
//!
//! Harness commands: `emit a b ..` logs its arguments; `next v` pops the first character of
//! variable v and returns "true" iff it was 'T' ("false" when v is undefined or empty).
use dsverif::*;
use duckscript::runner;
use duckscript::types::command::{Command, CommandInvocationContext, CommandResult};
use duckscript::types::runtime::StateValue;
use duckscript::types::env::Env;
use std::cell::RefCell;
use std::collections::HashMap;
use std::sync::atomic::{AtomicBool, AtomicU64, Ordering};
use std::sync::Arc;
use std::time::Duration;

thread_local! {
    static TRACE: RefCell<Vec<Vec<String>>> = RefCell::new(vec![]);
    static HANGS: RefCell<u32> = RefCell::new(0);
}

#[derive(Clone)]
struct Emit;
impl Command for Emit {
    fn name(&self) -> String {
        "emit".to_string()
    }
    fn clone_and_box(&self) -> Box<dyn Command> {
        Box::new(self.clone())
    }
    fn run(&self, context: CommandInvocationContext) -> CommandResult {
        TRACE.with(|t| t.borrow_mut().push(context.arguments.clone()));
        CommandResult::Continue(None)
    }
}

#[derive(Clone)]
struct Next;
impl Command for Next {
    fn name(&self) -> String {
        "next".to_string()
    }
    fn clone_and_box(&self) -> Box<dyn Command> {
        Box::new(self.clone())
    }
    fn run(&self, context: CommandInvocationContext) -> CommandResult {
        let name = match context.arguments.get(0) {
            Some(n) => n.clone(),
            None => return CommandResult::Error("next: missing variable name".to_string()),
        };
        let value = context.variables.get(&name).cloned();
        match value {
            Some(v) if !v.is_empty() => {
                let mut it = v.chars();
                let first = it.next().unwrap();
                let rest: String = it.collect();
                context.variables.insert(name, rest);
                CommandResult::Continue(Some(if first == 'T' { "true" } else { "false" }.to_string()))
            }
            _ => CommandResult::Continue(Some("false".to_string())),
        }
    }
}

fn sub<'a>(state: &'a HashMap<String, StateValue>, key: &str) -> Option<&'a HashMap<String, StateValue>> {
    match state.get(key) {
        Some(StateValue::SubState(m)) => Some(m),
        _ => None,
    }
}
fn unum(m: &HashMap<String, StateValue>, key: &str) -> String {
    match m.get(key) {
        Some(StateValue::UnsignedNumber(v)) => v.to_string(),
        other => format!("?{:?}", other),
    }
}
/// keys are "<line context name>::<line>"; C04 programs have the empty context name
fn line_key(key: &str) -> String {
    match key.strip_prefix("::").and_then(|k| k.parse::<usize>().ok()) {
        Some(n) => format!("{:05}", n),
        None => format!("?{}", enc_str(key)),
    }
}
fn meta_cache(state: &HashMap<String, StateValue>, command: &str, with_else: bool) -> String {
    let mut out = vec![];
    if let Some(cs) = sub(state, &format!("duckscriptsdk::command::{}", command)) {
        if let Some(mi) = sub(cs, "meta_info") {
            for (key, v) in mi {
                if let StateValue::SubState(m) = v {
                    let mut e = format!("{}:{}:{}", line_key(key), unum(m, "start"), unum(m, "end"));
                    if with_else {
                        let l: Vec<String> = match m.get("else_lines") {
                            Some(StateValue::List(l)) => l
                                .iter()
                                .map(|x| match x {
                                    StateValue::UnsignedNumber(v) => v.to_string(),
                                    o => format!("?{:?}", o),
                                })
                                .collect(),
                            o => vec![format!("?{:?}", o)],
                        };
                        e.push(':');
                        e.push_str(&l.join("+"));
                    }
                    out.push(e);
                } else {
                    out.push(format!("{}:?", line_key(key)));
                }
            }
        }
    }
    out.sort();
    out.join(",")
}
fn end_table(state: &HashMap<String, StateValue>) -> String {
    let mut out = vec![];
    if let Some(es) = sub(state, "duckscriptsdk::command::end") {
        for (key, v) in es {
            match v {
                StateValue::String(c) => out.push(format!("{}:{}", line_key(key), enc_str(c))),
                _ => out.push(format!("{}:?", line_key(key))),
            }
        }
    }
    out.sort();
    out.join(",")
}

fn main() {
    // watchdog: a script whose thread has consumed more CPU time than the fuse (measured in on-CPU
    // nanoseconds of the main thread, /proc/self/schedstat, so that a loaded machine cannot trip
    // it) is halted and reported as HANG.  `deadline` holds (case number << 20 | fuse in ms).
    let halt = Arc::new(AtomicBool::new(false));
    let deadline = Arc::new(AtomicU64::new(0));
    fn cpu_ns() -> u64 {
        std::fs::read_to_string("/proc/self/schedstat")
            .ok()
            .and_then(|s| s.split_whitespace().next().and_then(|x| x.parse::<u64>().ok()))
            .unwrap_or(0)
    }
    {
        let (halt, deadline) = (halt.clone(), deadline.clone());
        std::thread::spawn(move || {
            let mut seen: u64 = 0;
            let mut since: u64 = 0;
            loop {
                std::thread::sleep(Duration::from_millis(25));
                let d = deadline.load(Ordering::SeqCst);
                if d == 0 {
                    seen = 0;
                    continue;
                }
                let now = cpu_ns();
                if d != seen {
                    seen = d;
                    since = now;
                    continue;
                }
                let fuse_ms = d & 0xfffff;
                if now > since && (now - since) / 1_000_000 > fuse_ms {
                    halt.store(true, Ordering::SeqCst);
                }
            }
        });
    }
    let case_no = std::cell::Cell::new(0u64);
    let case_no = std::panic::AssertUnwindSafe(case_no);
    let base_fuse: u64 = std::env::var("VERIF_C04_FUSE_MS").ok().and_then(|x| x.parse().ok()).unwrap_or(4000);
    let (halt, deadline) = (std::panic::AssertUnwindSafe(halt), std::panic::AssertUnwindSafe(deadline));
    serve(move |f| match f[0] {
        "R" => {
            let lines = dec_list(f[1]);
            let init = dec_list(f[2]);
            let script = lines.join("\n");
            let mut context = sdk_context(true);
            context.commands.set(Box::new(Emit)).expect("set emit");
            context.commands.set(Box::new(Next)).expect("set next");
            for kv in init.chunks(2) {
                if kv.len() == 2 {
                    context.variables.insert(kv[0].clone(), kv[1].clone());
                }
            }
            TRACE.with(|t| t.borrow_mut().clear());
            halt.store(false, Ordering::SeqCst);
            // after three hangs the fuse gets short, so that a hanging mutant does not stall the check
            let fuse = if HANGS.with(|h| *h.borrow()) >= 3 { base_fuse / 20 } else { base_fuse };
            case_no.set(case_no.get() + 1);
            deadline.store((case_no.get() << 20) | fuse.min(0xfffff), Ordering::SeqCst);
            let env = Env::new(None, None, Some(halt.0.clone()));
            let result = runner::run_script(&script, context, Some(env));
            deadline.store(0, Ordering::SeqCst);
            if halt.load(Ordering::SeqCst) {
                HANGS.with(|h| *h.borrow_mut() += 1);
                return "HANG".to_string();
            }
            match result {
                Ok(ctx) => {
                    if let Some(l) = ctx.variables.get("__first_err_line") {
                        // the on_error command receives the 1-based line of the meta info
                        let n = ctx.variables.get("__err_count").cloned().unwrap_or_default();
                        let l0 = l.parse::<usize>().map(|x| (x as i64 - 1).to_string()).unwrap_or(l.clone());
                        return format!("ERROR {} {}", l0, n);
                    }
                    let trace = TRACE.with(|t| {
                        t.borrow()
                            .iter()
                            .map(|e| e.iter().map(|a| enc_str(a)).collect::<Vec<_>>().join(","))
                            .collect::<Vec<_>>()
                            .join(";")
                    });
                    let handles = sub(&ctx.state, "handles");
                    let mut vars = vec![];
                    for (k, v) in &ctx.variables {
                        if k.starts_with("__") {
                            continue;
                        }
                        let arr = handles.and_then(|h| match h.get(v) {
                            Some(StateValue::List(l)) => Some(
                                l.iter()
                                    .map(|x| match x {
                                        StateValue::String(s) => enc_str(s),
                                        o => format!("?{:?}", o),
                                    })
                                    .collect::<Vec<_>>()
                                    .join("+"),
                            ),
                            _ => None,
                        });
                        match arr {
                            Some(a) => vars.push(format!("{}=A{}", enc_str(k), a)),
                            None => vars.push(format!("{}=S{}", enc_str(k), enc_str(v))),
                        }
                    }
                    vars.sort();
                    format!(
                        "OK|T:{}|V:{}|IF:{}|WH:{}|FOR:{}|END:{}",
                        trace,
                        vars.join(","),
                        meta_cache(&ctx.state, "ifelse", true),
                        meta_cache(&ctx.state, "while", false),
                        meta_cache(&ctx.state, "forin", false),
                        end_table(&ctx.state)
                    )
                }
                Err(e) => format!("CRASH {}", script_error_kind(&e)),
            }
        }
        "STK" => {
            // diagnostic (not used by the check): sizes of the three call stacks after the run
            let lines = dec_list(f[1]);
            let init = dec_list(f[2]);
            let mut context = sdk_context(true);
            context.commands.set(Box::new(Emit)).expect("set emit");
            context.commands.set(Box::new(Next)).expect("set next");
            for kv in init.chunks(2) {
                if kv.len() == 2 {
                    context.variables.insert(kv[0].clone(), kv[1].clone());
                }
            }
            TRACE.with(|t| t.borrow_mut().clear());
            match runner::run_script(&lines.join("\n"), context, None) {
                Ok(ctx) => ["ifelse", "while", "forin"]
                    .iter()
                    .map(|c| {
                        let n = sub(&ctx.state, &format!("duckscriptsdk::command::{}", c))
                            .and_then(|m| match m.get("call_stack") {
                                Some(StateValue::List(l)) => Some(l.len()),
                                _ => None,
                            })
                            .unwrap_or(0);
                        format!("{}={}", c, n)
                    })
                    .collect::<Vec<_>>()
                    .join(" "),
                Err(e) => format!("CRASH {}", script_error_kind(&e)),
            }
        }
        "REG" => {
            let mut context = sdk_context(true);
            context.commands.set(Box::new(Emit)).expect("set emit");
            context.commands.set(Box::new(Next)).expect("set next");
            let names = dec_list(f[1]);
            let res: Vec<String> = names
                .iter()
                .map(|n| match context.commands.get(n) {
                    Some(c) => c.name(),
                    None => "?".to_string(),
                })
                .collect();
            enc_list(&res)
        }
        _ => "BADLINE".to_string(),
    });
}
