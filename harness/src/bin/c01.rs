//! C01: `duckscript::parser::parse_text` on texts rendered by the extracted renderer.
//! input:  P <text>      output: result in the wire form of dsverif::parsefmt
use dsverif::parsefmt::*;
use dsverif::*;
use duckscript::parser;

fn main() {
    serve_quiet(|f| match f[0] {
        "P" => {
            let text = dec_str(f[1]);
            fmt_parse_result(&parser::parse_text(&text))
        }
        _ => "BADLINE".to_string(),
    });
}
