//! C07 exploration harness: runs whole scripts on a fresh SDK context and reports how control
//! came back.  usage: c07 --out <result file> --work <dir>      (cases on stdin)
//!   input:  S <script text as str>        run_script
//!           F <file path as str>          run_script_file
//!   output (one line per case, flushed): OK | ERR <kind> | PANIC
//! Aborts (stack overflow, allocation failure) and hangs kill / stall this process: the Python
//! side sees the missing result line, attributes it to the first unanswered case and restarts
//! after it.  stdout/stderr of the scripts are discarded through Env writers; commands that write
//! to the process stdout directly are handled by redirecting the process's stdout to /dev/null.
use dsverif::*;
use duckscript::runner;
use duckscript::types::env::Env;
use std::io::{self, BufRead, Write};
use std::panic;

thread_local! {
    static LAST_PANIC: std::cell::RefCell<String> = std::cell::RefCell::new(String::new());
}

fn main() {
    let args: Vec<String> = std::env::args().collect();
    let mut out_path = None;
    let mut work = None;
    let mut i = 1;
    while i < args.len() {
        match args[i].as_str() {
            "--out" => {
                out_path = Some(args[i + 1].clone());
                i += 1
            }
            "--work" => {
                work = Some(args[i + 1].clone());
                i += 1
            }
            _ => {}
        }
        i += 1;
    }
    let mut out = std::fs::File::create(out_path.expect("--out")).expect("create out");
    if let Some(w) = work {
        std::fs::create_dir_all(&w).expect("mkdir work");
        std::env::set_current_dir(&w).expect("chdir work");
    }
    // remember where the last panic happened (file:line of the panicking code) for clustering
    panic::set_hook(Box::new(|info| {
        let loc = info
            .location()
            .map(|l| format!("{}:{}", l.file(), l.line()))
            .unwrap_or_default();
        LAST_PANIC.with(|p| *p.borrow_mut() = loc);
    }));
    let stdin = io::stdin();
    for line in stdin.lock().lines() {
        let line = line.expect("stdin");
        let f: Vec<&str> = line.split('\t').collect();
        let r = panic::catch_unwind(|| {
            let context = sdk_context(false);
            let env = Env::new(Some(Box::new(io::sink())), Some(Box::new(io::sink())), None);
            let res = match f[0] {
                "S" => runner::run_script(&dec_str(f[1]), context, Some(env)),
                "F" => runner::run_script_file(&dec_str(f[1]), context, Some(env)),
                _ => return "BADLINE".to_string(),
            };
            match res {
                Ok(_) => "OK".to_string(),
                Err(e) => format!("ERR {}", script_error_kind(&e)),
            }
        });
        let s = match r {
            Ok(s) => s,
            Err(_) => format!("PANIC {}", LAST_PANIC.with(|p| p.borrow().clone())),
        };
        writeln!(out, "{}", s).unwrap();
        out.flush().unwrap();
    }
}
