//! C06: the four consumers of condition evaluation (not, if, elseif, while) on a token list.
//! input:  T <tokens>                 output: <not> <if> <elseif> <while>   (T|F|E<code>|X<text>)
//!         LOWER <alphabet as str>    output: number of scalar values violating the lower-casing fact
use dsverif::*;
use duckscript::runner;

fn err_code(msg: &str) -> String {
    let code = if msg.starts_with("Missing ')'") {
        1
    } else if msg.starts_with("Unexpected value") {
        2
    } else if msg.starts_with("Unexpected ')'") {
        3
    } else if msg.starts_with("Unexpected 'and'") {
        4
    } else if msg.starts_with("Unexpected 'or'") {
        5
    } else {
        return format!("X{}", enc_str(msg));
    };
    format!("E{}", code)
}

fn run_consumer(script: &str, tokens: &[String]) -> String {
    let mut context = sdk_context(true);
    for (i, t) in tokens.iter().enumerate() {
        context.variables.insert(format!("v{}", i), t.clone());
    }
    match runner::run_script(script, context, None) {
        Ok(ctx) => {
            if let Some(e) = ctx.variables.get("__first_err") {
                err_code(e)
            } else {
                match ctx.variables.get("r").map(|s| s.as_str()) {
                    Some("T") => "T".to_string(),
                    Some("F") => "F".to_string(),
                    other => format!("X{}", enc_str(&format!("{:?}", other))),
                }
            }
        }
        Err(e) => format!("X{}", enc_str(&e.to_string())),
    }
}

fn main() {
    serve(|f| match f[0] {
        "T" => {
            let tokens = dec_list(f[1]);
            let args: Vec<String> = (0..tokens.len()).map(|i| format!("${{v{}}}", i)).collect();
            let a = args.join(" ");
            // not: out is the negation; an error makes the first error visible
            let s_not = format!("o = not {}\nr = set F\nif ${{o}}\nr = set F\nelse\nr = set T\nend\n", a);
            let s_if = format!("r = set F\nif {}\nr = set T\nexit\nend\n", a);
            let s_elseif = format!("r = set F\nif false\nr = set X\nelseif {}\nr = set T\nexit\nend\n", a);
            let s_while = format!("r = set F\nwhile {}\nr = set T\nexit\nend\n", a);
            // `not` of a truthy condition gives "false": r = T means the condition was truthy
            let not_script = format!("o = not {}\nr = not ${{o}}\n", a);
            let _ = s_not;
            let n = {
                let mut context = sdk_context(true);
                for (i, t) in tokens.iter().enumerate() {
                    context.variables.insert(format!("v{}", i), t.clone());
                }
                match runner::run_script(&not_script, context, None) {
                    Ok(ctx) => {
                        if let Some(e) = ctx.variables.get("__first_err") {
                            err_code(e)
                        } else {
                            match ctx.variables.get("o").map(|s| s.as_str()) {
                                Some("false") => "T".to_string(),
                                Some("true") => "F".to_string(),
                                other => format!("X{}", enc_str(&format!("{:?}", other))),
                            }
                        }
                    }
                    Err(e) => format!("X{}", enc_str(&e.to_string())),
                }
            };
            format!(
                "{} {} {} {}",
                n,
                run_consumer(&s_if, &tokens),
                run_consumer(&s_elseif, &tokens),
                run_consumer(&s_while, &tokens)
            )
        }
        // history: the SAME if / elseif / while / not line (same script text, same context and state) evaluated for several
        // token lists of equal length, one after the other; every evaluation must be the stateless verdict of its own list
        "TS" => {
            let lists: Vec<Vec<String>> = f[1..].iter().map(|x| dec_list(x)).collect();
            let k = lists[0].len();
            let args: Vec<String> = (0..k).map(|i| format!("${{v{}}}", i)).collect();
            let a = args.join(" ");
            let scripts = [
                format!("__first_err = set\nunset __first_err\no = not {}\nr = not ${{o}}\nif ${{r}}\nr = set T\nelse\nr = set F\nend\n", a),
                format!("r = set F\nif {}\nr = set T\nend\n", a),
                format!("r = set F\nif false\nr = set X\nelseif {}\nr = set T\nend\n", a),
                // a function so that the loop is LEFT (return) and ENTERED again on the same line
                format!("fn w__\nwhile {}\nreturn T\nend\nreturn F\nend\nr = w__\n", a),
            ];
            let mut outs: Vec<Vec<String>> = vec![vec![]; lists.len()];
            for script in scripts.iter() {
                let mut context = Some(sdk_context(true));
                for (j, tokens) in lists.iter().enumerate() {
                    let mut ctx = context.take().unwrap();
                    ctx.variables.remove("__first_err");
                    ctx.variables.remove("r");
                    for (i, t) in tokens.iter().enumerate() {
                        ctx.variables.insert(format!("v{}", i), t.clone());
                    }
                    match runner::run_script(script, ctx, None) {
                        Ok(c) => {
                            let v = if let Some(e) = c.variables.get("__first_err") {
                                err_code(e)
                            } else {
                                match c.variables.get("r").map(|s| s.as_str()) {
                                    Some("T") => "T".to_string(),
                                    Some("F") => "F".to_string(),
                                    other => format!("X{}", enc_str(&format!("{:?}", other))),
                                }
                            };
                            outs[j].push(v);
                            context = Some(c);
                        }
                        Err(e) => {
                            outs[j].push(format!("X{}", enc_str(&e.to_string())));
                            context = Some(sdk_context(true));
                        }
                    }
                }
            }
            outs.iter().map(|o| o.join(" ")).collect::<Vec<_>>().join(";")
        }
        "LOWER" => {
            let alphabet: Vec<char> = dec_str(f[1]).chars().collect();
            let mut bad = vec![];
            for cp in 0u32..0x110000 {
                if let Some(c) = char::from_u32(cp) {
                    let low: Vec<char> = c.to_string().to_lowercase().chars().collect();
                    let la = if c.is_ascii_uppercase() { c.to_ascii_lowercase() } else { c };
                    let same = low.len() == 1 && low[0] == la;
                    let disjoint = !low.is_empty()
                        && low.iter().all(|x| !alphabet.contains(x))
                        && !alphabet.contains(&la);
                    if !(same || disjoint) {
                        bad.push(cp);
                    }
                }
            }
            format!("{} {:?}", bad.len(), &bad[..bad.len().min(5)])
        }
        _ => "BADLINE".to_string(),
    });
}
