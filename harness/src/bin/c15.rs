//! C15: the command registry through the public `Commands` API and through the script-level
//! commands.  Same case lines and output format as ocaml/c15_driver.ml:
//!   A <op>...                    history from Commands::new() with dummy commands
//!   F <ext;...> <op>...          prefix, then every extension on a clone of the state; hash
//!   P <K> <cmds> <aliases> <sop>...   alias / unalias / remove_command / is_command_defined /
//!                                fn definitions, one script per step on a carried SDK context;
//!                                the registry is dumped restricted to the key set K
//!   BASE                         dump of the registry of a freshly loaded SDK context
use dsverif::*;
use duckscript::runner;
use duckscript::types::command::{Command, Commands};
use duckscript::types::runtime::Context;
use std::collections::HashSet;

#[derive(Clone)]
struct Dummy {
    name: String,
    aliases: Vec<String>,
}
impl Command for Dummy {
    fn name(&self) -> String {
        self.name.clone()
    }
    fn aliases(&self) -> Vec<String> {
        self.aliases.clone()
    }
    fn clone_and_box(&self) -> Box<dyn Command> {
        Box::new(self.clone())
    }
}

fn comma(l: &[String]) -> String {
    l.iter().map(|s| enc_str(s)).collect::<Vec<_>>().join(",")
}
fn cmd_s(c: &Box<dyn Command>) -> String {
    format!("{}/{}", enc_str(&c.name()), comma(&c.aliases()))
}
fn dump(c: &Commands, keys: Option<&HashSet<String>>) -> String {
    let mut names: Vec<&String> = c.commands.keys().filter(|k| keys.map_or(true, |s| s.contains(*k))).collect();
    names.sort();
    let cs: Vec<String> = names
        .iter()
        .map(|k| {
            let v = &c.commands[*k];
            if &v.name() != *k {
                format!("!key{}!{}", enc_str(k), cmd_s(v))
            } else {
                cmd_s(v)
            }
        })
        .collect();
    let mut al: Vec<&String> = c.aliases.keys().filter(|k| keys.map_or(true, |s| s.contains(*k))).collect();
    al.sort();
    let als: Vec<String> = al.iter().map(|k| format!("{}>{}", enc_str(k), enc_str(&c.aliases[*k]))).collect();
    format!("D{}|{}", cs.join(";"), als.join(";"))
}
fn b2s(b: bool) -> &'static str {
    if b {
        "T"
    } else {
        "F"
    }
}
fn step(c: &mut Commands, op: &str) -> String {
    let t: Vec<&str> = op.split(' ').collect();
    match t[0] {
        "s" => {
            let d = Dummy { name: dec_str(t[1]), aliases: t[2..].iter().map(|x| dec_str(x)).collect() };
            match c.set(Box::new(d)) {
                Ok(_) => "ok".to_string(),
                Err(_) => "E".to_string(),
            }
        }
        "g" => match c.get(&dec_str(t[1])) {
            Some(cmd) => format!("G{}", cmd_s(cmd)),
            None => "N".to_string(),
        },
        "u" => match c.get_for_use(&dec_str(t[1])) {
            Some(cmd) => format!("G{}", cmd_s(&cmd)),
            None => "N".to_string(),
        },
        "e" => b2s(c.exists(&dec_str(t[1]))).to_string(),
        "n" => format!("L{}", comma(&c.get_all_command_names())),
        "r" => b2s(c.remove(&dec_str(t[1]))).to_string(),
        _ => "BADOP".to_string(),
    }
}
fn hash(s: &str) -> String {
    let (mut h1, mut h2) = (7u64, 11u64);
    for b in s.bytes() {
        h1 = (h1 * 257 + b as u64) % 1000000007;
        h2 = (h2 * 263 + b as u64) % 998244353;
    }
    format!("H{:09}{:09}", h1, h2)
}

fn err_count(ctx: &Context) -> usize {
    ctx.variables.get("__err_count").and_then(|v| v.parse().ok()).unwrap_or(0)
}

fn script_step(mut ctx: Context, op: &str) -> Result<(Context, String), String> {
    let t: Vec<&str> = op.split(' ').collect();
    if t[0] == "h" {
        // the HOST registers a command (Commands::set) between two script steps
        let r = step(&mut ctx.commands, &format!("s {}", t[1..].join(" ")));
        return Ok((ctx, r));
    }
    let args: Vec<String> = t[1..].iter().map(|x| dec_str(x)).collect();
    let a = args.join(" ");
    let script = match t[0] {
        "a" => format!("__r = alias {}\n", a),
        "u" => format!("__r = unalias {}\n", a),
        "r" => format!("__r = remove_command {}\n", a),
        "d" => format!("__r = is_command_defined {}\n", a),
        "f" => format!("fn {}\nend\n", a),
        _ => return Err("BADOP".to_string()),
    };
    let before = err_count(&ctx);
    match runner::run_script(&script, ctx, None) {
        Ok(mut ctx) => {
            let r = if err_count(&ctx) > before {
                "E".to_string()
            } else {
                match ctx.variables.get("__r").map(|s| s.as_str()) {
                    Some("true") => "T".to_string(),
                    Some("false") => "F".to_string(),
                    None => "N".to_string(),
                    Some(o) => format!("X{}", enc_str(o)),
                }
            };
            ctx.variables.remove("__r");
            Ok((ctx, r))
        }
        Err(e) => Err(format!("CRASH:{}", script_error_kind(&e))),
    }
}

fn main() {
    serve(|f| match f[0] {
        "A" => {
            let mut c = Commands::new();
            let mut out: Vec<String> = f[1..].iter().map(|op| step(&mut c, op)).collect();
            out.push(dump(&c, None));
            out.join("\t")
        }
        "F" => {
            let mut c = Commands::new();
            let mut out: Vec<String> = f[2..].iter().map(|op| step(&mut c, op)).collect();
            out.push(dump(&c, None));
            let mut b = String::new();
            for e in f[1].split(';') {
                let mut c2 = c.clone();
                let s = step(&mut c2, e);
                b.push_str(&s);
                b.push(' ');
                b.push_str(&dump(&c2, None));
                b.push('\n');
            }
            out.push(hash(&b));
            out.join("\t")
        }
        "P" => {
            let keys: HashSet<String> = dec_list(f[1]).into_iter().collect();
            let mut ctx = Some(sdk_context(true));
            let mut out = vec![];
            for op in &f[4..] {
                match script_step(ctx.take().unwrap(), op) {
                    Ok((c, r)) => {
                        out.push(r);
                        out.push(dump(&c.commands, Some(&keys)));
                        ctx = Some(c);
                    }
                    Err(e) => {
                        out.push(e);
                        break;
                    }
                }
            }
            out.join("\t")
        }
        "BASE" => dump(&sdk_context(true).commands, None),
        _ => "BADLINE".to_string(),
    });
}
