//! C08: `duckscript::parser::parse_text` on arbitrary texts.
//! input:  P <text>                       output: result in the wire form of dsverif::parsefmt
//!         X <alphabet> <len> <from> <n>  output: H <digest> <n ok> <n ok non-empty> <n err>  over the n texts of length
//!                                        len numbered from.. (base-|alphabet| digits, most significant first)
//!         WS                             output: WS <all scalar values with char::is_whitespace, ascending>
use dsverif::parsefmt::*;
use dsverif::*;
use duckscript::parser;
use std::panic;

fn main() {
    serve_quiet(|f| match f[0] {
        "P" => {
            let text = dec_str(f[1]);
            fmt_parse_result(&parser::parse_text(&text))
        }
        "X" => {
            let alpha: Vec<char> = dec_str(f[1]).chars().collect();
            let b = alpha.len();
            let len: usize = f[2].parse().unwrap();
            let from: usize = f[3].parse().unwrap();
            let n: usize = f[4].parse().unwrap();
            let (mut h, mut ok, mut ne, mut err) = (0u64, 0usize, 0usize, 0usize);
            for idx in from..from + n {
                let mut digits = vec![' '; len];
                let mut x = idx;
                for k in (0..len).rev() {
                    digits[k] = alpha[x % b];
                    x /= b;
                }
                let text: String = digits.into_iter().collect();
                let r = match panic::catch_unwind(|| fmt_parse_result(&parser::parse_text(&text))) {
                    Ok(r) => r,
                    Err(_) => "PANIC".to_string(),
                };
                if r.starts_with('O') {
                    ok += 1;
                    if r.contains('S') || r.contains('P') {
                        ne += 1
                    }
                } else {
                    err += 1
                }
                h = digest_add(h, &r);
            }
            format!("H {} {} {} {}", h, ok, ne, err)
        }
        "WS" => {
            let mut s = String::from("WS");
            for cp in 0u32..0x110000 {
                if let Some(c) = char::from_u32(cp) {
                    if c.is_whitespace() {
                        s.push_str(&format!(" {}", cp));
                    }
                }
            }
            s
        }
        _ => "BADLINE".to_string(),
    });
}
