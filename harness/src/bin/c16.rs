//! C16: text / comparison / arithmetic / range commands, one command call per case.
//! input:  R <command> <args as list>   output: V<str> | N | L<list> | E<kind> | E? (error, unknown text) | X<message> | PANIC
//!         WS                            output: all scalar values with char::is_whitespace, as a str
//! The command is run through a one-line script `out = <command> ${v0} ${v1} ...` with the arguments
//! pre-set as variables, so that every value reaches the command verbatim.
use dsverif::*;
use duckscript::runner;
use duckscript::types::runtime::StateValue;

fn err_kind(cmd: &str, msg: &str) -> String {
    let table: [(&str, u32); 15] = [
        ("No argument provided.", 1),
        ("No arguments provided.", 1),
        ("Two arguments are required.", 2),
        ("Three arguments are required.", 3),
        ("Non numeric value", 4),
        ("Start index cannot be bigger than total text size.", 5),
        ("Index from end cannot be bigger than total text size.", 6),
        ("Start index cannot be negative.", 7),
        ("End index cannot be bigger than total text size.", 8),
        ("End index cannot be smaller than start index.", 9),
        ("Index is not on a character boundary.", 10),
        ("Invalid input provided.", 11),
        ("Invalid/Missing input.", 12),
        ("Invalid arguments provided, range start value", 13),
        ("Invalid arguments provided.", 14),
    ];
    for (p, k) in table.iter() {
        if msg.starts_with(p) {
            return format!("E{}", k);
        }
    }
    if cmd == "calc" {
        if msg.starts_with("Missing input.") {
            return "E15".to_string();
        }
        // any error reported by the expression evaluator
        return "E16".to_string();
    }
    // an error result whose text is not in the table: still an error result (texts are not compared)
    "E?".to_string()
}

fn state_value_text(v: &StateValue) -> String {
    match v {
        StateValue::String(s) => s.clone(),
        StateValue::Number64Bit(n) => n.to_string(),
        StateValue::Number(n) => n.to_string(),
        StateValue::UnsignedNumber(n) => n.to_string(),
        StateValue::UnsignedNumber64Bit(n) => n.to_string(),
        StateValue::Boolean(b) => b.to_string(),
        _ => "?".to_string(),
    }
}

fn run_command(cmd: &str, args: &[String]) -> String {
    run_command_after(cmd, args, &[], "")
}

/// the same call after earlier lines of the SAME run: `env` values are in variables e0.., `pre` is script text
fn run_command_after(cmd: &str, args: &[String], env: &[String], pre: &str) -> String {
    let mut context = sdk_context(true);
    for (i, a) in env.iter().enumerate() {
        context.variables.insert(format!("e{}", i), a.clone());
    }
    let mut script = format!("{}__first_err = set\nout = {}", pre, cmd);
    for (i, a) in args.iter().enumerate() {
        context.variables.insert(format!("v{}", i), a.clone());
        script.push_str(&format!(" ${{v{}}}", i));
    }
    script.push('\n');
    match runner::run_script(&script, context, None) {
        Ok(ctx) => {
            if let Some(e) = ctx.variables.get("__first_err") {
                return err_kind(cmd, e);
            }
            match ctx.variables.get("out") {
                None => "N".to_string(),
                Some(v) => {
                    if cmd == "split" || cmd == "range" {
                        let handles = match ctx.state.get("handles") {
                            Some(StateValue::SubState(m)) => m,
                            _ => return format!("X{}", enc_str("no handles state")),
                        };
                        match handles.get(v) {
                            Some(StateValue::List(l)) => {
                                let items: Vec<String> = l.iter().map(state_value_text).collect();
                                format!("L{}", enc_list(&items))
                            }
                            _ => format!("X{}", enc_str("handle is not a list")),
                        }
                    } else {
                        format!("V{}", enc_str(v))
                    }
                }
            }
        }
        Err(e) => format!("X{}", enc_str(&e.to_string())),
    }
}

fn main() {
    serve(|f| match f[0] {
        "R" if f.len() == 3 => run_command(f[1], &dec_list(f[2])),
        // RH <cmd> <args> <env> <earlier lines>: the call after a history in the same run
        "RH" if f.len() == 5 => run_command_after(f[1], &dec_list(f[2]), &dec_list(f[3]), &dec_str(f[4])),
        "WS" => {
            let mut s = String::new();
            for cp in 0u32..0x110000 {
                if let Some(c) = char::from_u32(cp) {
                    if c.is_whitespace() {
                        s.push(c);
                    }
                }
            }
            enc_str(&s)
        }
        _ => "BADLINE".to_string(),
    });
}
