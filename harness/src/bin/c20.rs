//! C20: the library side of what the `duck` executable does, in-process.
//! input (TAB-separated):
//!   RUN file <cwd> <name>   run_script_file(name) with cwd, SDK context, stdout captured through Env::new(out, ..)
//!   RUN text <cwd> <text>   run_script(text)
//!   PARSE <cwd> <name>      parser::parse_file(name)
//!   LOWER                   to_lowercase of the 128 ASCII characters
//! output RUN:    OK <captured out>  |  ERR <error.to_string()> <captured out>      (strings in wire encoding)
//! output PARSE:  OK <number of instructions>  |  ERR <kind> <line> <error.to_string()>
//! output LOWER:  128 space-separated strings
use dsverif::*;
use duckscript::parser;
use duckscript::runner;
use duckscript::types::env::Env;
use duckscript::types::error::ScriptError;
use std::cell::RefCell;
use std::io::{self, Write};
use std::rc::Rc;

struct Buf(Rc<RefCell<Vec<u8>>>);
impl Write for Buf {
    fn write(&mut self, data: &[u8]) -> io::Result<usize> {
        self.0.borrow_mut().extend_from_slice(data);
        Ok(data.len())
    }
    fn flush(&mut self) -> io::Result<()> {
        Ok(())
    }
}

fn err_line(e: &ScriptError) -> usize {
    match e {
        ScriptError::ErrorReadingFile(_, _) | ScriptError::Initialization(_) => 0,
        ScriptError::Runtime(_, m) => m.as_ref().and_then(|m| m.line).unwrap_or(0),
        ScriptError::PreProcessNoCommandFound(m)
        | ScriptError::ControlWithoutValidValue(m)
        | ScriptError::InvalidControlLocation(m)
        | ScriptError::MissingEndQuotes(m)
        | ScriptError::MissingOutputVariableName(m)
        | ScriptError::InvalidEqualsLocation(m)
        | ScriptError::InvalidQuotesLocation(m)
        | ScriptError::EmptyLabel(m)
        | ScriptError::UnknownPreProcessorCommand(m) => m.line.unwrap_or(0),
        #[allow(unreachable_patterns)]
        _ => 0,
    }
}

fn main() {
    let home = std::env::current_dir().expect("cwd");
    serve(move |f| {
        let r = match f[0] {
            "RUN" => {
                std::env::set_current_dir(dec_str(f[2])).expect("chdir");
                let buf = Rc::new(RefCell::new(Vec::new()));
                let env = Env::new(Some(Box::new(Buf(buf.clone()))), None, None);
                let value = dec_str(f[3]);
                // exactly what duckscript_cli::create_context + run_script do
                let context = sdk_context(false);
                let r = if f[1] == "file" {
                    runner::run_script_file(&value, context, Some(env))
                } else {
                    runner::run_script(&value, context, Some(env))
                };
                let out = String::from_utf8_lossy(&buf.borrow()).into_owned();
                match r {
                    Ok(_) => format!("OK {}", enc_str(&out)),
                    Err(e) => format!("ERR {} {}", enc_str(&e.to_string()), enc_str(&out)),
                }
            }
            "PARSE" => {
                std::env::set_current_dir(dec_str(f[1])).expect("chdir");
                match parser::parse_file(&dec_str(f[2])) {
                    Ok(is) => format!("OK {}", is.len()),
                    Err(e) => format!("ERR {} {} {}", script_error_kind(&e), err_line(&e), enc_str(&e.to_string())),
                }
            }
            "LOWER" => (0u32..128)
                .map(|c| enc_str(&char::from_u32(c).unwrap().to_string().to_lowercase()))
                .collect::<Vec<_>>()
                .join(" "),
            _ => "BADLINE".to_string(),
        };
        let _ = std::env::set_current_dir(&home);
        r
    });
}
