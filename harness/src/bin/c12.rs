//! C12: collection commands behind handles, one persistent SDK context per history.
//! input : H <TAB> op <TAB> op ...      op ::= <command> {SP arg}   arg ::= @<step> | =<str>
//!         special ops:  dump            re-read every collection allocated so far through the
//!                                        public commands (is_array/array_length/array_get,
//!                                        is_map/map_keys/map_get, is_set/set_to_array)
//!                       raw <tag>        put a non-collection StateValue (tag 0..9, see `raw_value`)
//!                                        into the handle table under a new key (exercises the
//!                                        other kind arms of mutate_*)
//!         `@k` is replaced by the output string of step k (or `undefined:k` when it had none).
//! output: one field per op:  E<kind> | N | V<str>   and for dump
//!         D<table size>|<step> A <list>|<step> M <k v k v ...>|<step> S <list>|<step> O|<step> X
//! Arrays produced by map_keys / set_to_array are put into canonical order (handle names replaced
//! by their allocation step) right after the command, because their order is the hash order.
use dsverif::*;
use duckscript::runner;
use duckscript::types::runtime::{Context, StateValue};
use std::cell::RefCell;
use std::collections::HashMap;
use std::rc::Rc;

fn err_kind(msg: &str) -> String {
    let k = if msg.starts_with("Invalid arguments provided, range start") {
        "R"
    } else if msg.ends_with("handle not provided.")
        || msg.starts_with("Array handle or item index not provided")
        || msg.starts_with("Invalid input provided")
        || msg.starts_with("Key not provided")
        || msg.starts_with("Key/Value not provided")
        || msg.starts_with("Value not provided")
        || msg.starts_with("Invalid arguments provided.")
    {
        "A"
    } else if msg.starts_with("Non numeric value") {
        "N"
    } else if msg.starts_with("Invalid handle provided") {
        "K"
    } else if msg.ends_with("not found.")
        && (msg.starts_with("Handle: ")
            || msg.starts_with("Array for handle: ")
            || msg.starts_with("Map for handle: ")
            || msg.starts_with("Set for handle: "))
    {
        "F"
    } else if msg.starts_with("Index: ") {
        "I"
    } else if msg.starts_with("Invalid input, non array handle or array not found") {
        "T"
    } else {
        return format!("X{}", enc_str(msg));
    };
    k.to_string()
}

enum Out {
    Err(String),
    None,
    Val(String),
}

/// one command call through a one-line script; arguments arrive through variables
fn call(ctx: Context, cmd: &str, args: &[String]) -> (Context, Out) {
    let mut ctx = ctx;
    let mut script = format!("__out = {}", cmd);
    for (i, a) in args.iter().enumerate() {
        ctx.variables.insert(format!("__a{}", i), a.clone());
        script.push_str(&format!(" ${{__a{}}}", i));
    }
    script.push('\n');
    ctx.variables.remove("__out");
    let before: usize = ctx.variables.get("__err_count").and_then(|v| v.parse().ok()).unwrap_or(0);
    match runner::run_script(&script, ctx, None) {
        Ok(mut c) => {
            let after: usize = c.variables.get("__err_count").and_then(|v| v.parse().ok()).unwrap_or(0);
            let out = if after > before {
                Out::Err(err_kind(c.variables.get("__last_err").map(|s| s.as_str()).unwrap_or("")))
            } else {
                match c.variables.get("__out") {
                    Some(v) => Out::Val(v.clone()),
                    None => Out::None,
                }
            };
            for i in 0..args.len() {
                c.variables.remove(&format!("__a{}", i));
            }
            c.variables.remove("__out");
            (c, out)
        }
        Err(e) => (sdk_context(true), Out::Err(format!("X{}", enc_str(&format!("SCRIPT:{}", e))))),
    }
}

fn handles(ctx: &mut Context) -> &mut HashMap<String, StateValue> {
    if !matches!(ctx.state.get("handles"), Some(StateValue::SubState(_))) {
        ctx.state.insert("handles".to_string(), StateValue::SubState(HashMap::new()));
    }
    match ctx.state.get_mut("handles") {
        Some(StateValue::SubState(m)) => m,
        _ => unreachable!(),
    }
}

fn raw_value(tag: u32) -> StateValue {
    match tag {
        0 => StateValue::Boolean(true),
        1 => StateValue::Number(-3),
        2 => StateValue::UnsignedNumber(3),
        3 => StateValue::Number32Bit(-4),
        4 => StateValue::UnsignedNumber32Bit(4),
        5 => StateValue::Number64Bit(-5),
        6 => StateValue::UnsignedNumber64Bit(5),
        7 => StateValue::String("handle:text".to_string()),
        8 => StateValue::ByteArray(vec![1, 2, 3]),
        _ => StateValue::Any(Rc::new(RefCell::new(7u8))),
    }
}

/// replace every occurrence of a known handle name by \u{1}<step>\u{2}
fn canon(s: &str, names: &[(usize, String)]) -> String {
    let mut out = String::new();
    let mut rest = s;
    'outer: while !rest.is_empty() {
        if rest.starts_with("handle:") {
            for (k, n) in names.iter().rev() {
                if rest.starts_with(n.as_str()) {
                    out.push('\u{1}');
                    out.push_str(&k.to_string());
                    out.push('\u{2}');
                    rest = &rest[n.len()..];
                    continue 'outer;
                }
            }
        }
        let c = rest.chars().next().unwrap();
        out.push(c);
        rest = &rest[c.len_utf8()..];
    }
    out
}

const ALLOC: [&str; 10] = [
    "array", "range", "map", "set_new", "map_keys", "set_to_array", "array_concat", "set_from_array",
    "raw", "split",
];

fn out_str(o: &Out) -> String {
    match o {
        Out::Err(k) => format!("E{}", k),
        Out::None => "N".to_string(),
        Out::Val(v) => format!("V{}", enc_str(v)),
    }
}

fn dump(ctx: Context, names: &[(usize, String)]) -> (Context, String) {
    let mut ctx = ctx;
    let mut parts = vec![format!("D{}", handles(&mut ctx).len())];
    for (k, h) in names {
        let hv = vec![h.clone()];
        let present = handles(&mut ctx).contains_key(h);
        let (c, ia) = call(ctx, "is_array", &hv);
        let (c, im) = call(c, "is_map", &hv);
        let (c, is) = call(c, "is_set", &hv);
        ctx = c;
        let t = |o: &Out| matches!(o, Out::Val(v) if v == "true");
        if t(&ia) {
            let (c, len) = call(ctx, "array_length", &hv);
            ctx = c;
            let n: usize = match len {
                Out::Val(v) => v.parse().unwrap_or(0),
                _ => 0,
            };
            let mut items = vec![];
            for i in 0..n {
                let (c, it) = call(ctx, "array_get", &[h.clone(), i.to_string()]);
                ctx = c;
                items.push(match it {
                    Out::Val(v) => v,
                    Out::None => "\u{3}none".to_string(),
                    Out::Err(e) => format!("\u{3}err{}", e),
                });
            }
            parts.push(format!("{} A {}", k, enc_list(&items)));
        } else if t(&im) {
            let (c, keys) = call(ctx, "map_keys", &hv);
            ctx = c;
            let mut kv = vec![];
            if let Out::Val(kh) = keys {
                let key_list: Vec<String> = match handles(&mut ctx).get(&kh) {
                    Some(StateValue::List(l)) => l
                        .iter()
                        .map(|x| match x {
                            StateValue::String(s) => s.clone(),
                            _ => "\u{3}nonstring".to_string(),
                        })
                        .collect(),
                    _ => vec![],
                };
                for key in key_list {
                    let (c, v) = call(ctx, "map_get", &[h.clone(), key.clone()]);
                    ctx = c;
                    kv.push(key);
                    kv.push(match v {
                        Out::Val(v) => v,
                        Out::None => "\u{3}none".to_string(),
                        Out::Err(e) => format!("\u{3}err{}", e),
                    });
                }
                let (c, _) = call(ctx, "release", &[kh]);
                ctx = c;
            }
            parts.push(format!("{} M {}", k, enc_list(&kv)));
        } else if t(&is) {
            let (c, arr) = call(ctx, "set_to_array", &hv);
            ctx = c;
            let mut items = vec![];
            if let Out::Val(ah) = arr {
                if let Some(StateValue::List(l)) = handles(&mut ctx).get(&ah) {
                    for x in l {
                        if let StateValue::String(s) = x {
                            items.push(s.clone());
                        }
                    }
                }
                let (c, _) = call(ctx, "release", &[ah]);
                ctx = c;
            }
            parts.push(format!("{} S {}", k, enc_list(&items)));
        } else if present {
            parts.push(format!("{} O", k));
        } else {
            parts.push(format!("{} X", k));
        }
    }
    (ctx, parts.join("|"))
}

fn history(ops: &[&str]) -> String {
    let mut ctx = sdk_context(true);
    let mut outs: Vec<Option<String>> = vec![];
    let mut names: Vec<(usize, String)> = vec![];
    let mut res: Vec<String> = vec![];
    let mut raw_count = 0u64;
    for (step, op) in ops.iter().enumerate() {
        let toks: Vec<&str> = op.split(' ').collect();
        let cmd = toks[0];
        if cmd == "dump" {
            let (c, d) = dump(ctx, &names);
            ctx = c;
            res.push(d);
            outs.push(None);
            continue;
        }
        if cmd == "raw" {
            let tag: u32 = toks[1].parse().unwrap_or(0);
            raw_count += 1;
            let key = format!("handle:RAW{:017}", raw_count);
            handles(&mut ctx).insert(key.clone(), raw_value(tag));
            names.push((step, key.clone()));
            res.push(format!("V{}", enc_str(&key)));
            outs.push(Some(key));
            continue;
        }
        let args: Vec<String> = toks[1..]
            .iter()
            .map(|a| {
                if let Some(k) = a.strip_prefix('@') {
                    let k: usize = k.parse().unwrap_or(usize::MAX);
                    match outs.get(k) {
                        Some(Some(v)) => v.clone(),
                        _ => format!("undefined:{}", k),
                    }
                } else {
                    dec_str(&a[1..])
                }
            })
            .collect();
        let (c, o) = call(ctx, cmd, &args);
        ctx = c;
        if let Out::Val(v) = &o {
            if ALLOC.contains(&cmd) {
                names.push((step, v.clone()));
                if cmd == "map_keys" || cmd == "set_to_array" {
                    let nm = names.clone();
                    if let Some(StateValue::List(l)) = handles(&mut ctx).get_mut(v) {
                        l.sort_by_cached_key(|x| match x {
                            StateValue::String(s) => canon(s, &nm),
                            _ => String::new(),
                        });
                    }
                }
            }
        }
        res.push(out_str(&o));
        outs.push(match o {
            Out::Val(v) => Some(v),
            _ => None,
        });
    }
    res.join("\t")
}

fn main() {
    serve(|f| match f[0] {
        "H" => history(&f[1..]),
        _ => "BADLINE".to_string(),
    });
}
