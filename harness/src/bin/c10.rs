//! C10: the SDK's error protocol on real programs.
//! input:  R <src> <files> <text> <watch>
//!            src   = N: runner::run_script(text) ; S<path>: text written to <path>, run_script_file
//!            files = - | <path>=<content>;...   written before the run (included files), removed after
//!            watch = list of variable names reported after a successful run
//! The context is the real SDK (dsverif::sdk_context(false)) plus two harness commands:
//!   hsnap v1 v2 ...   logs the current values of the named variables (N when undefined)
//!   hfail [msg]       answers CommandResult::Error(msg or "fail")
//! output: OK - - - <snaps> <vars>  |  ERR MSG <message> <line> <source> <snaps> -
//!         snaps = - | entry;entry;...  entry = <opt>,<opt>,...   vars = - | name=<opt>;...
use dsverif::*;
use duckscript::runner;
use duckscript::types::command::{Command, CommandInvocationContext, CommandResult};
use duckscript::types::env::Env;
use duckscript::types::error::ScriptError;
use std::cell::RefCell;
use std::rc::Rc;
use std::sync::atomic::{AtomicBool, AtomicU64, Ordering};
use std::sync::{Arc, Mutex};
use std::time::{SystemTime, UNIX_EPOCH};

#[derive(Clone)]
struct Snap {
    log: Rc<RefCell<Vec<String>>>,
}
impl Command for Snap {
    fn name(&self) -> String {
        "hsnap".to_string()
    }
    fn clone_and_box(&self) -> Box<dyn Command> {
        Box::new(self.clone())
    }
    fn run(&self, context: CommandInvocationContext) -> CommandResult {
        let entry: Vec<String> = context
            .arguments
            .iter()
            .map(|v| enc_opt(&context.variables.get(v).cloned()))
            .collect();
        self.log.borrow_mut().push(entry.join(","));
        CommandResult::Continue(None)
    }
}

#[derive(Clone)]
struct Fail;
impl Command for Fail {
    fn name(&self) -> String {
        "hfail".to_string()
    }
    fn clone_and_box(&self) -> Box<dyn Command> {
        Box::new(self.clone())
    }
    fn run(&self, context: CommandInvocationContext) -> CommandResult {
        CommandResult::Error(context.arguments.get(0).cloned().unwrap_or("fail".to_string()))
    }
}

fn now_ms() -> u64 {
    SystemTime::now().duration_since(UNIX_EPOCH).unwrap().as_millis() as u64
}

fn main() {
    // watchdog: a case running longer than 10 s gets its halt flag raised and is reported as TIMEOUT
    let deadline = Arc::new(AtomicU64::new(u64::MAX));
    let current: Arc<Mutex<Option<Arc<AtomicBool>>>> = Arc::new(Mutex::new(None));
    let fired = Arc::new(AtomicBool::new(false));
    {
        let (deadline, current, fired) = (deadline.clone(), current.clone(), fired.clone());
        std::thread::spawn(move || loop {
            std::thread::sleep(std::time::Duration::from_millis(100));
            if now_ms() > deadline.load(Ordering::SeqCst) {
                if let Some(h) = current.lock().unwrap().as_ref() {
                    fired.store(true, Ordering::SeqCst);
                    h.store(true, Ordering::SeqCst);
                }
            }
        });
    }
    serve(move |f| match f[0] {
        "R" if f.len() >= 5 => {
            let log = Rc::new(RefCell::new(Vec::new()));
            let mut context = sdk_context(false);
            context.commands.set(Box::new(Snap { log: log.clone() })).expect("hsnap");
            context.commands.set(Box::new(Fail)).expect("hfail");
            let mut written = vec![];
            if f[2] != "-" {
                for kv in f[2].split(';') {
                    let i = kv.find('=').expect("file");
                    let path = dec_str(&kv[..i]);
                    if let Some(dir) = std::path::Path::new(&path).parent() {
                        let _ = std::fs::create_dir_all(dir);
                    }
                    std::fs::write(&path, dec_str(&kv[i + 1..])).expect("write included file");
                    written.push(path);
                }
            }
            let text = dec_str(f[3]);
            let halt = Arc::new(AtomicBool::new(false));
            *current.lock().unwrap() = Some(halt.clone());
            fired.store(false, Ordering::SeqCst);
            deadline.store(now_ms() + 10_000, Ordering::SeqCst);
            let env = Env::new(None, None, Some(halt));
            let r = match if f[1] == "N" { None } else { Some(dec_str(&f[1][1..])) } {
                None => runner::run_script(&text, context, Some(env)),
                Some(path) => {
                    if let Some(dir) = std::path::Path::new(&path).parent() {
                        let _ = std::fs::create_dir_all(dir);
                    }
                    std::fs::write(&path, &text).expect("write script file");
                    written.push(path.clone());
                    runner::run_script_file(&path, context, Some(env))
                }
            };
            deadline.store(u64::MAX, Ordering::SeqCst);
            *current.lock().unwrap() = None;
            for p in written {
                let _ = std::fs::remove_file(p);
            }
            if fired.load(Ordering::SeqCst) {
                return "TIMEOUT".to_string();
            }
            let snaps = {
                let l = log.borrow();
                if l.is_empty() { "-".to_string() } else { l.join(";") }
            };
            match r {
                Ok(ctx) => {
                    let watch = dec_list(f[4]);
                    let vars: Vec<String> = watch
                        .iter()
                        .map(|v| format!("{}={}", enc_str(v), enc_opt(&ctx.variables.get(v).cloned())))
                        .collect();
                    format!("OK\t-\t-\t-\t{}\t{}", snaps, if vars.is_empty() { "-".to_string() } else { vars.join(";") })
                }
                Err(ScriptError::Runtime(msg, meta)) => {
                    let (line, src) = match meta {
                        Some(m) => (m.line.map(|l| l.to_string()).unwrap_or("N".to_string()), enc_opt(&m.source)),
                        None => ("NOMETA".to_string(), "NOMETA".to_string()),
                    };
                    format!("ERR\tMSG {}\t{}\t{}\t{}\t-", enc_str(&msg), line, src, snaps)
                }
                Err(e) => format!("ERR\tKIND {} {}\t-\t-\t{}\t-", script_error_kind(&e), enc_str(&e.to_string()), snaps),
            }
        }
        _ => "BADLINE".to_string(),
    });
}
