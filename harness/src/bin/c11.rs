//! C11: variable commands and the scope stack on a persistent SDK context.
//!   H <step> <step> ...     one history; every step is run as a one-line script on the carried
//!                           Context (state and variables persist), observed after each step
//!   step := <out> <cmd> <arg> ...   (space separated; out = "-" or an encoded variable name)
//!   cmd  := S set | U unset | B set_by_name | G get_by_name | D is_defined | A get_all_var_names
//!         | X unset_all_vars [prefix] | C clear_scope | P / P+ scope_push_stack [--copy names]
//!         | Q / Q+ scope_pop_stack [--copy names]
//!   Arguments reach the command verbatim: argument i is pre-set as variable __a<i> and the script
//!   says ${__a<i>}; every variable whose name starts with "__" is removed after each step.
//!   output per step:  <output>;<variables>     output = V<str> | N | E | L<names,> ;
//!                     variables = k=v,k=v sorted by key
//!   R <text>                raw script (debugging aid): prints variables after running it
use dsverif::*;
use duckscript::runner;
use duckscript::types::runtime::{Context, StateValue};
use std::panic::{catch_unwind, AssertUnwindSafe};

fn err_count(ctx: &Context) -> usize {
    ctx.variables.get("__err_count").and_then(|v| v.parse().ok()).unwrap_or(0)
}
fn vars_s(ctx: &Context) -> String {
    let mut keys: Vec<&String> = ctx.variables.keys().filter(|k| !k.starts_with("__")).collect();
    keys.sort();
    keys.iter().map(|k| format!("{}={}", enc_str(k), enc_str(&ctx.variables[*k]))).collect::<Vec<_>>().join(",")
}
fn ident(s: &str) -> bool {
    !s.is_empty() && s.chars().all(|c| c.is_ascii_alphanumeric() || c == '_' || c == ':' || c == '.')
}

fn step(mut ctx: Context, st: &str) -> Result<(Context, String), String> {
    let t: Vec<&str> = st.split(' ').collect();
    if t.len() < 2 {
        return Err("BADSTEP".to_string());
    }
    let out = if t[0] == "-" { None } else { Some(dec_str(t[0])) };
    if let Some(o) = &out {
        if !ident(o) || o.starts_with("__") {
            return Err("BADOUT".to_string());
        }
    }
    let args: Vec<String> = t[2..].iter().map(|x| dec_str(x)).collect();
    let mut refs = vec![];
    // Arguments free of `$` and `%` are written as quoted literals (documented syntax, property C01), so that the variable map
    // holds nothing but the history's own variables while the command runs (seed C11-w7-m2: a fast path of push compared the
    // length of the --copy list with the number of variables - the helper variables below made it unreachable).  Arguments
    // with `$` / `%` cannot be written literally (no escape for `%`): they are handed over through helper variables `__aN`.
    let literal = args.iter().all(|a| !a.contains('$') && !a.contains('%'));
    for (i, a) in args.iter().enumerate() {
        if literal {
            let mut q = String::from("\"");
            for c in a.chars() {
                match c {
                    '"' => q.push_str("\\\""),
                    '\\' => q.push_str("\\\\"),
                    '\n' => q.push_str("\\n"),
                    '\r' => q.push_str("\\r"),
                    _ => q.push(c),
                }
            }
            q.push('"');
            refs.push(q);
        } else {
            ctx.variables.insert(format!("__a{}", i), a.clone());
            refs.push(format!("${{__a{}}}", i));
        }
    }
    let r = refs.join(" ");
    let call = match t[1] {
        "S" => format!("set {}", r),
        "U" => format!("unset {}", r),
        "B" => format!("set_by_name {}", r),
        "G" => format!("get_by_name {}", r),
        "D" => format!("is_defined {}", r),
        "A" => "get_all_var_names".to_string(),
        "X" => {
            if args.is_empty() {
                "unset_all_vars".to_string()
            } else {
                format!("unset_all_vars --prefix {}", r)
            }
        }
        "C" => format!("clear_scope {}", r),
        "P" => "scope_push_stack".to_string(),
        "P+" => format!("scope_push_stack --copy {}", r),
        "Q" => "scope_pop_stack".to_string(),
        "Q+" => format!("scope_pop_stack --copy {}", r),
        _ => return Err("BADCMD".to_string()),
    };
    let ovar = out.clone().unwrap_or("__r".to_string());
    let script = format!("{} = {}\n", ovar, call);
    let before = err_count(&ctx);
    let res = catch_unwind(AssertUnwindSafe(move || runner::run_script(&script, ctx, None)));
    match res {
        Err(_) => Err("PANIC".to_string()),
        Ok(Err(e)) => Err(format!("CRASH:{}", script_error_kind(&e))),
        Ok(Ok(mut ctx)) => {
            let o = if err_count(&ctx) > before {
                "E".to_string()
            } else {
                match ctx.variables.get(&ovar) {
                    None => "N".to_string(),
                    Some(v) => {
                        if t[1] == "A" {
                            let mut names: Vec<String> = match ctx.state.get("handles") {
                                Some(StateValue::SubState(h)) => match h.get(v) {
                                    Some(StateValue::List(l)) => l
                                        .iter()
                                        .map(|x| match x {
                                            StateValue::String(s) => s.clone(),
                                            _ => "?".to_string(),
                                        })
                                        .collect(),
                                    _ => vec!["?nohandle".to_string()],
                                },
                                _ => vec!["?nohandles".to_string()],
                            };
                            names.retain(|n| !n.starts_with("__"));
                            names.sort();
                            format!("L{}", names.iter().map(|s| enc_str(s)).collect::<Vec<_>>().join(","))
                        } else {
                            format!("V{}", enc_str(v))
                        }
                    }
                }
            };
            ctx.variables.retain(|k, _| !k.starts_with("__"));
            // get_all_var_names into a named output variable: its value is a random handle name, shown as "H"
            let real = if t[1] == "A" && !o.starts_with('E') {
                out.as_ref().and_then(|n| ctx.variables.insert(n.clone(), "H".to_string()).map(|v| (n.clone(), v)))
            } else {
                None
            };
            let s = format!("{};{}", o, vars_s(&ctx));
            if let Some((n, v)) = real {
                ctx.variables.insert(n, v);
            }
            Ok((ctx, s))
        }
    }
}

fn main() {
    serve(|f| match f[0] {
        "H" => {
            let mut ctx = Some(sdk_context(true));
            let mut out = vec![];
            for st in &f[1..] {
                match step(ctx.take().unwrap(), st) {
                    Ok((c, s)) => {
                        out.push(s);
                        ctx = Some(c);
                    }
                    Err(e) => {
                        out.push(e);
                        break;
                    }
                }
            }
            out.join("\t")
        }
        "R" => {
            let ctx = sdk_context(true);
            match runner::run_script(&dec_str(f[1]), ctx, None) {
                Ok(c) => {
                    let mut keys: Vec<&String> = c.variables.keys().collect();
                    keys.sort();
                    keys.iter().map(|k| format!("{}={:?}", k, c.variables[*k])).collect::<Vec<_>>().join(" | ")
                }
                Err(e) => format!("ERR {}", e),
            }
        }
        _ => "BADLINE".to_string(),
    });
}
