//! prints every registered SDK command name with its aliases (used by generators and to
//! cross-check regenerated registry tables)
use duckscript::types::runtime::Context;
fn main() {
    let mut context = Context::new();
    duckscriptsdk::load(&mut context.commands).unwrap();
    let mut names = context.commands.get_all_command_names();
    names.sort();
    for n in names {
        let mut al: Vec<String> = context
            .commands
            .aliases
            .iter()
            .filter(|(_, v)| **v == n)
            .map(|(k, _)| k.clone())
            .collect();
        al.sort();
        println!("{}\t{}", n, al.join(" "));
    }
}
