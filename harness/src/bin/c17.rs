//! C17: encodings.  Byte strings travel as dot-separated decimals ("e" = empty), like texts.
//! input                       output
//!   ENC <bytes>               V<str> | E           base64_encode of a byte-array handle
//!   DEC <str>                 B<bytes> | E         base64_decode, bytes read back from the handle
//!   U8D <bytes>               V<str> | E           bytes_to_string of a byte-array handle
//!   U8E <str>                 B<bytes>             string_to_bytes
//!   RT <str>                  V<b64> TAB V<str>    string_to_bytes | base64_encode | base64_decode | bytes_to_string
//!   WRAP <str>                V<b64> TAB V<str>    the same through the script-implemented `base64 -e / -d`
//!   HEXE <str> / HEXD <str>   V<str> | E           hex_encode / hex_decode
//!   HEXRT <str>               V<hex> TAB V<dec>    hex_encode then hex_decode
//!   JSON <str>                V<str> | N | E       json_parse --collection then json_encode --collection
//!   JSONV <str>               V<str> | N | E       json_parse to variables then json_encode
//!   PROPS <keys> <values>     V<text> TAB <sorted k=v list of the map read back> | E
//!   PROPSR <text>             <sorted k=v list> | E      map_load_properties on a given text
//!   PW <prefix> <keys> <values>       V<text> | E<kind>          map_to_properties [--prefix p] (lines in the HashMap's order)
//!   PR <prefix> <text>                M<sorted k v ...> | E<kind>:<line>   map_load_properties [--prefix p] into an empty map
//!   PRT <p> <q> <keys> <values>       <PW result> TAB <PR result of that text | ->
//!     error kinds: 1 not enough digits, 2 not hex, 3 invalid character (java-properties' unescape), 10 str::from_utf8
//!     failed, 11 encoder error, 0 anything else; <line> is the crate's line_number (0 when there is none)
use dsverif::*;
use duckscript::runner;
use duckscript::types::runtime::{Context, StateValue};
use std::collections::HashMap;

fn dec_bytes(field: &str) -> Vec<u8> {
    if field == "e" {
        vec![]
    } else {
        field.split('.').map(|x| x.parse::<u8>().expect("byte")).collect()
    }
}
fn enc_bytes(b: &[u8]) -> String {
    if b.is_empty() {
        "e".to_string()
    } else {
        b.iter().map(|x| x.to_string()).collect::<Vec<_>>().join(".")
    }
}

fn handles(ctx: &mut Context) -> &mut HashMap<String, StateValue> {
    if !ctx.state.contains_key("handles") {
        ctx.state.insert("handles".to_string(), StateValue::SubState(HashMap::new()));
    }
    match ctx.state.get_mut("handles") {
        Some(StateValue::SubState(m)) => m,
        _ => panic!("handles state"),
    }
}

/// runs the script; Err(kind) when a command reported an error or the run failed
fn run(script: &str, context: Context) -> Result<Context, String> {
    match runner::run_script(script, context, None) {
        Ok(ctx) => {
            if ctx.variables.contains_key("__first_err") {
                Err("E".to_string())
            } else {
                Ok(ctx)
            }
        }
        Err(e) => Err(format!("X{}", enc_str(&e.to_string()))),
    }
}

fn out_var(ctx: &Context, name: &str) -> String {
    match ctx.variables.get(name) {
        Some(v) => format!("V{}", enc_str(v)),
        None => "N".to_string(),
    }
}

fn bytes_at(ctx: &mut Context, var: &str) -> String {
    let key = match ctx.variables.get(var) {
        Some(k) => k.clone(),
        None => return "N".to_string(),
    };
    match handles(ctx).get(&key) {
        Some(StateValue::ByteArray(b)) => format!("B{}", enc_bytes(b)),
        _ => "X".to_string(),
    }
}

fn map_dump(ctx: &mut Context, key: &str) -> String {
    match handles(ctx).get(key) {
        Some(StateValue::SubState(m)) => {
            let mut items: Vec<(String, String)> = m
                .iter()
                .map(|(k, v)| {
                    (
                        k.clone(),
                        match v {
                            StateValue::String(s) => s.clone(),
                            _ => "?".to_string(),
                        },
                    )
                })
                .collect();
            items.sort();
            let flat: Vec<String> = items.into_iter().flat_map(|(k, v)| vec![k, v]).collect();
            format!("M{}", enc_list(&flat))
        }
        _ => "X".to_string(),
    }
}

/// kind and line number of a java-properties / map_to_properties error message (never the message itself)
fn props_err(msg: &str) -> String {
    let kind = if msg.contains("not enough digits") {
        1
    } else if msg.contains("not hex") {
        2
    } else if msg.contains("invalid character") {
        3
    } else if msg.contains("utf-8") {
        10
    } else if msg.contains("Encoding error") {
        11
    } else {
        0
    };
    let line = match msg.rfind("(line_number = ") {
        Some(i) => msg[i + 15..].trim_end_matches(')').parse::<usize>().unwrap_or(0),
        None => 0,
    };
    format!("E{}:{}", kind, line)
}

fn props_write(prefix: &str, keys: &[String], values: &[String]) -> Result<String, String> {
    let mut context = sdk_context(true);
    let mut m = HashMap::new();
    for (k, v) in keys.iter().zip(values.iter()) {
        m.insert(k.clone(), StateValue::String(v.clone()));
    }
    handles(&mut context).insert("handle:in".to_string(), StateValue::SubState(m));
    context.variables.insert("p".to_string(), prefix.to_string());
    match runner::run_script("text = map_to_properties --prefix ${p} handle:in\n", context, None) {
        Ok(ctx) => match ctx.variables.get("__first_err") {
            Some(msg) => Err(props_err(msg)),
            None => Ok(ctx.variables.get("text").cloned().unwrap_or_default()),
        },
        Err(e) => Err(format!("X{}", enc_str(&e.to_string()))),
    }
}

fn props_read(prefix: &str, text: &str) -> String {
    let mut context = sdk_context(true);
    handles(&mut context).insert("handle:back".to_string(), StateValue::SubState(HashMap::new()));
    context.variables.insert("p".to_string(), prefix.to_string());
    context.variables.insert("v0".to_string(), text.to_string());
    match runner::run_script("ok = map_load_properties --prefix ${p} handle:back ${v0}\n", context, None) {
        Ok(mut ctx) => match ctx.variables.get("__first_err") {
            Some(msg) => props_err(msg),
            None => map_dump(&mut ctx, "handle:back"),
        },
        Err(e) => format!("X{}", enc_str(&e.to_string())),
    }
}

fn main() {
    serve(|f| {
        let mut context = sdk_context(true);
        match f[0] {
            "ENC" | "U8D" => {
                let bytes = dec_bytes(f[1]);
                handles(&mut context).insert("handle:in".to_string(), StateValue::ByteArray(bytes));
                let cmd = if f[0] == "ENC" { "base64_encode" } else { "bytes_to_string" };
                match run(&format!("out = {} handle:in\n", cmd), context) {
                    Ok(ctx) => out_var(&ctx, "out"),
                    Err(e) => e,
                }
            }
            "DEC" => {
                context.variables.insert("v0".to_string(), dec_str(f[1]));
                match run("out = base64_decode ${v0}\n", context) {
                    Ok(mut ctx) => bytes_at(&mut ctx, "out"),
                    Err(e) => e,
                }
            }
            "U8E" => {
                context.variables.insert("v0".to_string(), dec_str(f[1]));
                match run("out = string_to_bytes ${v0}\n", context) {
                    Ok(mut ctx) => bytes_at(&mut ctx, "out"),
                    Err(e) => e,
                }
            }
            "RT" | "WRAP" => {
                context.variables.insert("v0".to_string(), dec_str(f[1]));
                let script = if f[0] == "RT" {
                    "h = string_to_bytes ${v0}\nb = base64_encode ${h}\nh2 = base64_decode ${b}\nout = bytes_to_string ${h2}\n"
                } else {
                    "h = string_to_bytes ${v0}\nb = base64 -e ${h}\nh2 = base64 -decode ${b}\nout = bytes_to_string ${h2}\n"
                };
                match run(script, context) {
                    Ok(ctx) => format!("{}\t{}", out_var(&ctx, "b"), out_var(&ctx, "out")),
                    Err(e) => e,
                }
            }
            "HEXE" | "HEXD" => {
                context.variables.insert("v0".to_string(), dec_str(f[1]));
                let cmd = if f[0] == "HEXE" { "hex_encode" } else { "hex_decode" };
                match run(&format!("out = {} ${{v0}}\n", cmd), context) {
                    Ok(ctx) => out_var(&ctx, "out"),
                    Err(e) => e,
                }
            }
            "HEXRT" => {
                context.variables.insert("v0".to_string(), dec_str(f[1]));
                match run("h = hex_encode ${v0}\nout = hex_decode ${h}\n", context) {
                    Ok(ctx) => format!("{}\t{}", out_var(&ctx, "h"), out_var(&ctx, "out")),
                    Err(e) => e,
                }
            }
            "JSON" => {
                context.variables.insert("v0".to_string(), dec_str(f[1]));
                match run("h = json_parse --collection ${v0}\nout = json_encode --collection ${h}\n", context) {
                    Ok(ctx) => {
                        if ctx.variables.contains_key("h") {
                            out_var(&ctx, "out")
                        } else {
                            "N".to_string()
                        }
                    }
                    Err(e) => e,
                }
            }
            // history: the same text parsed twice in one runtime with the first result edited in between; the second
            // round trip must not depend on what happened to the first one
            "JSONH" => {
                context.variables.insert("v0".to_string(), dec_str(f[1]));
                match run("h1 = json_parse --collection ${v0}\nisa = is_array ${h1}\nif ${isa}\narray_push ${h1} ZZ\nend\nism = is_map ${h1}\nif ${ism}\nmap_put ${h1} zz ZZ\nend\nh = json_parse --collection ${v0}\nout = json_encode --collection ${h}\n", context) {
                    Ok(ctx) => {
                        if ctx.variables.contains_key("h") {
                            out_var(&ctx, "out")
                        } else {
                            "N".to_string()
                        }
                    }
                    Err(e) => e,
                }
            }
            "JSONV" => {
                context.variables.insert("v0".to_string(), dec_str(f[1]));
                match run("root = json_parse ${v0}\nout = json_encode root\n", context) {
                    Ok(ctx) => out_var(&ctx, "out"),
                    Err(e) => e,
                }
            }
            "PROPS" => {
                let keys = dec_list(f[1]);
                let values = dec_list(f[2]);
                let mut m = HashMap::new();
                for (k, v) in keys.iter().zip(values.iter()) {
                    m.insert(k.clone(), StateValue::String(v.clone()));
                }
                handles(&mut context).insert("handle:in".to_string(), StateValue::SubState(m));
                handles(&mut context).insert("handle:back".to_string(), StateValue::SubState(HashMap::new()));
                match run("text = map_to_properties handle:in\nok = map_load_properties handle:back ${text}\n", context) {
                    Ok(mut ctx) => format!("{}\t{}", out_var(&ctx, "text"), map_dump(&mut ctx, "handle:back")),
                    Err(e) => e,
                }
            }
            "PROPSR" => {
                context.variables.insert("v0".to_string(), dec_str(f[1]));
                handles(&mut context).insert("handle:back".to_string(), StateValue::SubState(HashMap::new()));
                match run("ok = map_load_properties handle:back ${v0}\n", context) {
                    Ok(mut ctx) => map_dump(&mut ctx, "handle:back"),
                    Err(e) => e,
                }
            }
            "PW" => match props_write(&dec_str(f[1]), &dec_list(f[2]), &dec_list(f[3])) {
                Ok(t) => format!("V{}", enc_str(&t)),
                Err(e) => e.split(':').next().unwrap_or("E").to_string(),
            },
            "PR" => props_read(&dec_str(f[1]), &dec_str(f[2])),
            "PRT" => match props_write(&dec_str(f[1]), &dec_list(f[3]), &dec_list(f[4])) {
                Ok(t) => format!("V{}\t{}", enc_str(&t), props_read(&dec_str(f[2]), &t)),
                Err(e) => format!("{}\t-", e.split(':').next().unwrap_or("E")),
            },
            _ => "BADLINE".to_string(),
        }
    });
}
