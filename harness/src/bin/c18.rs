//! C18: file-system commands on a real directory, one history per case.
//! usage: c18 [scratch-root]      (default /verif/.cache/c18; never /tmp)
//! input:  H <op> <op> ...        TAB-separated; an op is `;`-separated sub-fields:
//!           W;p;s  A;p;s  R;p  WB;p;bytes  RB;p  T;p  MK;p  CP;a;b  MV;a;b  RM;<N|S flags>;<paths>
//!           RD;p  EX;p  IF;p  ID;p  SZ;p  LS;p
//!           p = <0|1>:<components, space separated>  a path below the case root, 1 = written with a
//!           trailing separator; RM paths are `,`-separated
//!           BN;s  DN;s  JP;<list>                        (raw strings, not prefixed)
//! output: one field per op (TAB-separated): `<out>|<dump>`
//!           out  = V<str> value | N no value | E error reported | B<bytes> | L<list> | X<text> crash
//!           dump = the whole case directory after the step: `D<path>` / `F<path>:<bytes>` entries,
//!                  sorted as encoded text, space separated, `-` when empty.
//! Every case runs in a fresh directory <scratch-root>/<pid>-<n>/ that is removed afterwards (also
//! when the op panics: the guard's Drop runs during unwinding, `dsverif::serve` catches the panic).
use dsverif::*;
use duckscript::runner;
use duckscript::types::runtime::{Context, StateValue};
use std::cell::Cell;
use std::collections::HashMap;
use std::fs;
use std::path::{Path, PathBuf};

thread_local! {
    static COUNTER: Cell<u64> = Cell::new(0);
    static KEPT: std::cell::RefCell<Vec<(String, Vec<u8>)>> = std::cell::RefCell::new(Vec::new());
}

struct CaseDir(PathBuf);
impl Drop for CaseDir {
    fn drop(&mut self) {
        let _ = fs::remove_dir_all(&self.0);
    }
}

fn dec_bytes(f: &str) -> Vec<u8> {
    if f == "e" {
        vec![]
    } else {
        f.split('.').map(|x| x.parse::<u8>().expect("byte")).collect()
    }
}
fn enc_bytes(b: &[u8]) -> String {
    if b.is_empty() {
        "e".to_string()
    } else {
        b.iter().map(|x| x.to_string()).collect::<Vec<_>>().join(".")
    }
}

fn walk(root: &Path, dir: &Path, out: &mut Vec<String>) {
    let rd = match fs::read_dir(dir) {
        Ok(r) => r,
        Err(_) => return,
    };
    for entry in rd.flatten() {
        let p = entry.path();
        let rel = p.strip_prefix(root).unwrap().to_string_lossy().into_owned();
        let md = match fs::symlink_metadata(&p) {
            Ok(m) => m,
            Err(_) => continue,
        };
        if md.is_dir() {
            out.push(format!("D{}", enc_str(&rel)));
            walk(root, &p, out);
        } else if md.is_file() {
            let content = fs::read(&p).unwrap_or_default();
            out.push(format!("F{}:{}", enc_str(&rel), enc_bytes(&content)));
        } else {
            out.push(format!("O{}", enc_str(&rel)));
        }
    }
}

fn dump(root: &Path) -> String {
    let mut v = vec![];
    walk(root, root, &mut v);
    v.sort();
    if v.is_empty() {
        "-".to_string()
    } else {
        v.join(" ")
    }
}

fn handles(ctx: &mut Context) -> &mut HashMap<String, StateValue> {
    let e = ctx
        .state
        .entry("handles".to_string())
        .or_insert_with(|| StateValue::SubState(HashMap::new()));
    match e {
        StateValue::SubState(m) => m,
        _ => panic!("handles is not a sub state"),
    }
}

fn err_count(ctx: &Context) -> usize {
    ctx.variables.get("__err_count").and_then(|v| v.parse().ok()).unwrap_or(0)
}

/// runs `script` (one line, output variable `out`); returns the out field
fn exec(ctx: &mut Option<Context>, script: &str, kind: &str, root_prefix: &str) -> String {
    let mut c = ctx.take().unwrap();
    c.variables.remove("out");
    let before = err_count(&c);
    match runner::run_script(script, c, None) {
        Ok(mut c2) => {
            let r = if err_count(&c2) != before {
                "E".to_string()
            } else {
                match c2.variables.get("out").cloned() {
                    None => "N".to_string(),
                    Some(v) => match kind {
                        // the handle is KEPT (a script may hold on to what it read): run_case checks after every later
                        // operation that it still holds the bytes it held when it was handed out
                        "RB" => match handles(&mut c2).get(&v) {
                            Some(StateValue::ByteArray(b)) => {
                                KEPT.with(|k| k.borrow_mut().push((v.clone(), b.clone())));
                                format!("B{}", enc_bytes(b))
                            }
                            _ => format!("X{}", enc_str("no byte array behind handle")),
                        },
                        "LS" => match handles(&mut c2).remove(&v) {
                            Some(StateValue::List(l)) => {
                                // entry names (the text after the last separator), sorted as encoded text
                                let mut items = vec![];
                                for it in l {
                                    if let StateValue::String(s) = it {
                                        let rel = s.strip_prefix(root_prefix).unwrap_or(&s);
                                        let name = rel.rsplit('/').next().unwrap_or(rel);
                                        items.push(enc_str(name));
                                    } else {
                                        items.push("?".to_string());
                                    }
                                }
                                items.sort();
                                format!("L{}", if items.is_empty() { "-".to_string() } else { items.join(" ") })
                            }
                            _ => format!("X{}", enc_str("no list behind handle")),
                        },
                        _ => format!("V{}", enc_str(&v)),
                    },
                }
            };
            *ctx = Some(c2);
            r
        }
        Err(e) => {
            *ctx = Some(sdk_context(true));
            KEPT.with(|k| k.borrow_mut().clear());
            format!("X{}", enc_str(&e.to_string()))
        }
    }
}

fn run_case(scratch: &str, ops: &[&str]) -> String {
    let n = COUNTER.with(|c| {
        let v = c.get();
        c.set(v + 1);
        v
    });
    let root = PathBuf::from(format!("{}/{}-{}", scratch, std::process::id(), n));
    let _ = fs::remove_dir_all(&root);
    fs::create_dir_all(&root).expect("create case dir");
    let guard = CaseDir(root.clone());
    let root_s = root.to_string_lossy().into_owned();
    let prefix = format!("{}/", root_s);
    // a path is `<0|1>:<components>`: the components joined with "/", plus "/" when flagged
    let abs = |p: &str| {
        let comps = dec_list(&p[2..]);
        format!("{}{}{}", prefix, comps.join("/"), if p.starts_with('1') { "/" } else { "" })
    };
    let mut ctx = Some(sdk_context(true));
    let mut outs = vec![];
    for op in ops {
        let f: Vec<&str> = op.split(';').collect();
        let kind = f[0];
        let c = ctx.as_mut().unwrap();
        let script: String = match kind {
            "W" | "A" => {
                c.variables.insert("a".into(), abs(f[1]));
                c.variables.insert("b".into(), dec_str(f[2]));
                format!("out = {} ${{a}} ${{b}}", if kind == "W" { "writefile" } else { "appendfile" })
            }
            "WB" => {
                c.variables.insert("a".into(), abs(f[1]));
                handles(c).insert("handle:c18bytes".into(), StateValue::ByteArray(dec_bytes(f[2])));
                c.variables.insert("b".into(), "handle:c18bytes".into());
                "out = write_binary_file ${a} ${b}".to_string()
            }
            "R" | "RB" | "T" | "MK" | "RD" | "EX" | "IF" | "ID" | "SZ" => {
                c.variables.insert("a".into(), abs(f[1]));
                let cmd = match kind {
                    "R" => "readfile",
                    "RB" => "read_binary_file",
                    "T" => "touch",
                    "MK" => "mkdir",
                    "RD" => "rmdir",
                    "EX" => "is_path_exists",
                    "IF" => "is_file",
                    "ID" => "is_dir",
                    _ => "get_file_size",
                };
                format!("out = {} ${{a}}", cmd)
            }
            "LS" => {
                let comps = dec_list(&f[1][2..]);
                c.variables.insert("a".into(), format!("{}{}/*", prefix, comps.join("/")));
                "out = glob_array ${a}".to_string()
            }
            "CP" | "MV" => {
                c.variables.insert("a".into(), abs(f[1]));
                c.variables.insert("b".into(), abs(f[2]));
                format!("out = {} ${{a}} ${{b}}", if kind == "CP" { "cp" } else { "mv" })
            }
            "RM" => {
                let mut s = "out = rm".to_string();
                if let Some(fl) = f[1].strip_prefix('S') {
                    c.variables.insert("f".into(), dec_str(fl));
                    s.push_str(" ${f}");
                }
                let paths: Vec<&str> = if f[2] == "-" { vec![] } else { f[2].split(',').collect() };
                for (i, p) in paths.iter().enumerate() {
                    c.variables.insert(format!("p{}", i), abs(p));
                    s.push_str(&format!(" ${{p{}}}", i));
                }
                s
            }
            "BN" | "DN" => {
                c.variables.insert("a".into(), dec_str(f[1]));
                format!("out = {} ${{a}}", if kind == "BN" { "basename" } else { "dirname" })
            }
            "JP" => {
                let mut s = "out = join_path".to_string();
                for (i, p) in dec_list(f[1]).iter().enumerate() {
                    c.variables.insert(format!("p{}", i), p.clone());
                    s.push_str(&format!(" ${{p{}}}", i));
                }
                s
            }
            _ => {
                outs.push("BADOP".to_string());
                continue;
            }
        };
        let mut o = exec(&mut ctx, &script, kind, &prefix);
        // every byte-array handle read earlier in this history still holds what was read (what is read is a value, not a view
        // of the file or of a later read)
        let stale = KEPT.with(|k| {
            let c = ctx.as_mut().unwrap();
            let h = handles(c);
            k.borrow().iter().any(|(name, bytes)| match h.get(name) {
                Some(StateValue::ByteArray(b)) => b != bytes,
                _ => true,
            })
        });
        if stale {
            o = format!("X{}", enc_str("a byte array read earlier changed or vanished"));
            KEPT.with(|k| k.borrow_mut().clear());
        }
        outs.push(format!("{}|{}", o, dump(&root)));
    }
    KEPT.with(|k| k.borrow_mut().clear());
    drop(guard);
    outs.join("\t")
}

fn main() {
    let scratch = std::env::args().nth(1).unwrap_or_else(|| "/verif/.cache/c18".to_string());
    fs::create_dir_all(&scratch).expect("scratch root");
    let _ = std::env::set_current_dir(&scratch);
    serve(move |f| match f[0] {
        "H" => run_case(&scratch, &f[1..]),
        _ => "BADLINE".to_string(),
    });
}
