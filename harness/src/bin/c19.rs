//! C19: what a (script-implemented or native) command invocation leaves behind.
//! input:  RUN <prelude script> <invocation script> <allowed: names the invocation may write>
//!         the prelude runs first on a fresh SDK context (creates collections / caller variables);
//!         then variables and the handle table are snapshotted, the invocation script runs on the
//!         same context, and the two snapshots are compared.
//! output: <status> TAB changed=<names> TAB new=<names> TAB gone=<names> TAB scoped=<names> TAB handles=<new handle count not reachable from allowed variables>
//!         status: OK | ERR (an error was reported to on_error) | FAIL<kind> (run failed) ; name lists are wire lists
use dsverif::*;
use duckscript::runner;
use duckscript::types::env::Env;
use duckscript::types::runtime::StateValue;
use std::collections::{HashMap, HashSet};
use std::io;

fn handle_keys(state: &HashMap<String, StateValue>) -> HashSet<String> {
    match state.get("handles") {
        Some(StateValue::SubState(m)) => m.keys().cloned().collect(),
        _ => HashSet::new(),
    }
}

fn main() {
    serve(|f| {
        if f[0] != "RUN" {
            return "BADLINE".to_string();
        }
        let prelude = dec_str(f[1]);
        let invocation = dec_str(f[2]);
        let allowed: HashSet<String> = dec_list(f[3]).into_iter().collect();
        let context = sdk_context(true);
        let env = Env::new(Some(Box::new(io::sink())), Some(Box::new(io::sink())), None);
        let mut context = match runner::run_script(&prelude, context, Some(env)) {
            Ok(c) => c,
            Err(e) => return format!("PRELUDEFAIL {}", enc_str(&e.to_string())),
        };
        for k in ["__first_err", "__first_err_line", "__last_err", "__last_err_line", "__last_err_src", "__err_count"] {
            context.variables.remove(k);
        }
        let before = context.variables.clone();
        let hbefore = handle_keys(&context.state);
        let env = Env::new(Some(Box::new(io::sink())), Some(Box::new(io::sink())), None);
        let (status, after, hafter) = match runner::run_script(&invocation, context, Some(env)) {
            Ok(c) => {
                let st = if c.variables.contains_key("__first_err") { "ERR" } else { "OK" };
                (st.to_string(), c.variables.clone(), handle_keys(&c.state))
            }
            Err(e) => return format!("FAIL{} {}", script_error_kind(&e), enc_str(&e.to_string())),
        };
        let internal = |k: &str| k.starts_with("__");
        let mut changed = vec![];
        let mut newv = vec![];
        let mut gone = vec![];
        let mut scoped = vec![];
        for (k, v) in &after {
            if internal(k) {
                continue;
            }
            if k.starts_with("scope::") && !before.contains_key(k) {
                scoped.push(k.clone());
            }
            if allowed.contains(k) {
                continue;
            }
            match before.get(k) {
                Some(v0) if v0 == v => {}
                Some(_) => changed.push(k.clone()),
                None => newv.push(k.clone()),
            }
        }
        for k in before.keys() {
            if !internal(k) && !allowed.contains(k) && !after.contains_key(k) {
                gone.push(k.clone());
            }
        }
        // new handles that no allowed variable refers to
        let reachable: HashSet<&String> = after.iter().filter(|(k, _)| allowed.contains(*k)).map(|(_, v)| v).collect();
        let leaked = hafter.iter().filter(|h| !hbefore.contains(*h) && !reachable.contains(h)).count();
        // collections of the caller that are gone after the call (none of the script commands releases a caller's collection)
        let lost = hbefore.iter().filter(|h| !hafter.contains(*h)).count();
        changed.sort();
        newv.sort();
        gone.sort();
        scoped.sort();
        format!(
            "{}\tchanged={}\tnew={}\tgone={}\tscoped={}\thandles={}\tlost={}",
            status,
            enc_list(&changed),
            enc_list(&newv),
            enc_list(&gone),
            enc_list(&scoped),
            leaked,
            lost
        )
    });
}
