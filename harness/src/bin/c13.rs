//! C13: the halt flag.  Same case lines as c03 (see ocaml/c03_driver.ml), run with
//! Env::new(None, None, Some(halt)) where halt is an Arc<AtomicBool> owned by the harness.
//! input:  P <src> <halt_at> <fuel> <prog> <cmds> <vars> <text>
//!            results marked "!" raise the flag from inside the command; halt_at = 0: the flag is
//!            already up when the run starts (other values are for the model only)
//!         T <src> <delay_us> <fuel> <prog> <cmds> <vars> <text> <sleep_us>
//!            a second thread raises the flag after <delay_us>; every command invocation pauses
//!            <sleep_us> so that endless programs produce a short log; from the 150th invocation on a
//!            command waits inside its run until the flag is up (bounds the log under any scheduling)
//!         Q ...same fields as P...   the run gets env = None (the runner's default Env): a "!" result raises
//!            the default Env's own flag through context.env.halt; 7th output field is "-"
//!         N <env: S|0> <thread: N|Y> <text> <watch>
//!            nested flows with the real SDK (dsverif::sdk_context(false)) plus harness commands, all
//!            logged as name|args:
//!              hlog t ..      Continue(Some t)            hraise t       raises the flag, Continue(Some "true")
//!              hraisefail t   raises the flag, Error(t)   hwait t        waits until the flag is up, Continue(Some "true")
//!              hwaitfail t    waits until the flag is up, Error(t)
//!            env = S: Env::new(None, None, Some(flag)); 0: env = None.  thread = Y: a second thread raises
//!            the flag as soon as a hwait/hwaitfail command has started waiting (Some(flag) only)
//!            output: OK|ERR <detail> <line> <src> <log> <watched vars name=<opt>;...> <flag>
//! output: as c03, plus a 7th field: the flag's value after the run (T|F)
#[path = "../scripted.rs"]
mod scripted;
use dsverif::*;
use duckscript::runner;
use duckscript::types::env::Env;
use scripted::*;
use std::cell::RefCell;
use std::rc::Rc;
use std::sync::atomic::{AtomicBool, Ordering};
use std::sync::Arc;

fn run_case(f: &[&str], halt: Arc<AtomicBool>, sleep_us: u64) -> String {
    let shared = Rc::new(RefCell::new(Shared::default()));
    shared.borrow_mut().sleep_us = sleep_us;
    shared.borrow_mut().wait_cap = if sleep_us > 0 { 150 } else { 0 };
    let cmds = parse_cmds(f[5], &shared);
    let context = make_context(&cmds, parse_vars(f[6]));
    let text = dec_str(f[7]);
    let env = Env::new(None, None, Some(halt.clone()));
    let r = match opt_field(f[1]) {
        None => runner::run_script(&text, context, Some(env)),
        Some(path) => {
            if let Some(dir) = std::path::Path::new(&path).parent() {
                let _ = std::fs::create_dir_all(dir);
            }
            std::fs::write(&path, &text).expect("write script file");
            let r = runner::run_script_file(&path, context, Some(env));
            let _ = std::fs::remove_file(&path);
            r
        }
    };
    format!("{}\t{}", show_result(r, &shared), if halt.load(Ordering::SeqCst) { "T" } else { "F" })
}

#[derive(Clone)]
struct Nested {
    name: &'static str,
    log: Rc<RefCell<Vec<String>>>,
    waiting: Arc<AtomicBool>,
}
impl duckscript::types::command::Command for Nested {
    fn name(&self) -> String {
        self.name.to_string()
    }
    fn clone_and_box(&self) -> Box<dyn duckscript::types::command::Command> {
        Box::new(self.clone())
    }
    fn run(&self, context: duckscript::types::command::CommandInvocationContext) -> duckscript::types::command::CommandResult {
        use duckscript::types::command::CommandResult;
        self.log.borrow_mut().push(format!("{}|{}", enc_str(self.name), enc_list(&context.arguments)));
        if self.log.borrow().len() > 5000 {
            panic!("watchdog");
        }
        let tag = context.arguments.get(0).cloned().unwrap_or_default();
        let wait = |ctx: &duckscript::types::command::CommandInvocationContext| {
            self.waiting.store(true, Ordering::SeqCst);
            let t0 = std::time::Instant::now();
            while !ctx.env.halt.load(Ordering::SeqCst) {
                std::thread::sleep(std::time::Duration::from_micros(100));
                if t0.elapsed().as_secs() > 30 {
                    panic!("watchdog");
                }
            }
        };
        match self.name {
            "hlog" => CommandResult::Continue(Some(tag)),
            "hraise" => {
                context.env.halt.store(true, Ordering::SeqCst);
                CommandResult::Continue(Some("true".to_string()))
            }
            "hraisefail" => {
                context.env.halt.store(true, Ordering::SeqCst);
                CommandResult::Error(tag)
            }
            "hwait" => {
                wait(&context);
                CommandResult::Continue(Some("true".to_string()))
            }
            _ => {
                wait(&context);
                CommandResult::Error(tag)
            }
        }
    }
}

fn nested_case(f: &[&str]) -> String {
    let log = Rc::new(RefCell::new(Vec::new()));
    let waiting = Arc::new(AtomicBool::new(false));
    let mut context = sdk_context(false);
    for name in ["hlog", "hraise", "hraisefail", "hwait", "hwaitfail"] {
        context
            .commands
            .set(Box::new(Nested { name, log: log.clone(), waiting: waiting.clone() }))
            .expect("harness command");
    }
    let halt = Arc::new(AtomicBool::new(false));
    let done = Arc::new(AtomicBool::new(false));
    let thread = if f[2] == "Y" {
        let (h2, w2, d2) = (halt.clone(), waiting.clone(), done.clone());
        Some(std::thread::spawn(move || {
            while !w2.load(Ordering::SeqCst) && !d2.load(Ordering::SeqCst) {
                std::thread::sleep(std::time::Duration::from_micros(50));
            }
            std::thread::sleep(std::time::Duration::from_micros(300));
            h2.store(true, Ordering::SeqCst);
        }))
    } else {
        None
    };
    let env = if f[1] == "S" { Some(Env::new(None, None, Some(halt.clone()))) } else { None };
    let text = dec_str(f[3]);
    let r = runner::run_script(&text, context, env);
    done.store(true, Ordering::SeqCst);
    if let Some(t) = thread {
        let _ = t.join();
    }
    let logs = {
        let l = log.borrow();
        if l.is_empty() { "-".to_string() } else { l.join(";") }
    };
    let flag = if f[1] == "S" { if halt.load(Ordering::SeqCst) { "T" } else { "F" } } else { "-" };
    match r {
        Ok(ctx) => {
            let vars: Vec<String> = dec_list(f[4])
                .iter()
                .map(|v| format!("{}={}", enc_str(v), enc_opt(&ctx.variables.get(v).cloned())))
                .collect();
            format!("OK\t-\t-\t-\t{}\t{}\t{}", logs, if vars.is_empty() { "-".to_string() } else { vars.join(";") }, flag)
        }
        Err(duckscript::types::error::ScriptError::Runtime(msg, meta)) => {
            let line = meta.as_ref().and_then(|m| m.line).map(|l| l.to_string()).unwrap_or("N".to_string());
            format!("ERR\tMSG {}\t{}\t-\t{}\t-\t{}", enc_str(&msg), line, logs, flag)
        }
        Err(e) => format!("ERR\tKIND {}\t-\t-\t{}\t-\t{}", script_error_kind(&e), logs, flag),
    }
}

/// W <fifo path> <text> <watch>: the flag is raised by a fire-and-forget thread (it drops its handle right after raising)
/// WHILE THE RUN IS STILL LOADING THE SCRIPT: the script file is a named pipe, the thread raises the flag after the runner
/// has opened the pipe and before it writes the text.  The embedder's own handle is moved into the Env.
fn watchdog_during_load(f: &[&str]) -> String {
    use std::io::Write;
    let path = dec_str(f[1]);
    let text = dec_str(f[2]);
    if let Some(dir) = std::path::Path::new(&path).parent() {
        let _ = std::fs::create_dir_all(dir);
    }
    let _ = std::fs::remove_file(&path);
    match std::process::Command::new("mkfifo").arg(&path).status() {
        Ok(st) if st.success() => (),
        _ => return "NOFIFO".to_string(),
    }
    let log = Rc::new(RefCell::new(Vec::new()));
    let waiting = Arc::new(AtomicBool::new(false));
    let mut context = sdk_context(false);
    for name in ["hlog", "hraise", "hraisefail", "hwait", "hwaitfail"] {
        context
            .commands
            .set(Box::new(Nested { name, log: log.clone(), waiting: waiting.clone() }))
            .expect("harness command");
    }
    let halt = Arc::new(AtomicBool::new(false));
    let raiser = halt.clone();
    let (wpath, wtext) = (path.clone(), text.clone());
    let t = std::thread::spawn(move || {
        // opening for writing blocks until the runner has opened the pipe for reading: the run is under way
        let mut pipe = match std::fs::OpenOptions::new().write(true).open(&wpath) {
            Ok(p) => p,
            Err(_) => return,
        };
        raiser.store(true, Ordering::SeqCst);
        drop(raiser);
        let _ = pipe.write_all(wtext.as_bytes());
    });
    let env = Env::new(None, None, Some(halt));      // the only remaining handle goes to the Env
    let r = runner::run_script_file(&path, context, Some(env));
    let _ = t.join();
    let _ = std::fs::remove_file(&path);
    let logs = {
        let l = log.borrow();
        if l.is_empty() { "-".to_string() } else { l.join(";") }
    };
    match r {
        Ok(ctx) => {
            let vars: Vec<String> = dec_list(f[3])
                .iter()
                .map(|v| format!("{}={}", enc_str(v), enc_opt(&ctx.variables.get(v).cloned())))
                .collect();
            format!("OK\t{}\t{}", logs, if vars.is_empty() { "-".to_string() } else { vars.join(";") })
        }
        Err(e) => format!("ERR\t{}\t{}", script_error_kind(&e), logs),
    }
}

fn run_case_default_env(f: &[&str]) -> String {
    let shared = Rc::new(RefCell::new(Shared::default()));
    let cmds = parse_cmds(f[5], &shared);
    let context = make_context(&cmds, parse_vars(f[6]));
    let text = dec_str(f[7]);
    let r = match opt_field(f[1]) {
        None => runner::run_script(&text, context, None),
        Some(path) => {
            if let Some(dir) = std::path::Path::new(&path).parent() {
                let _ = std::fs::create_dir_all(dir);
            }
            std::fs::write(&path, &text).expect("write script file");
            let r = runner::run_script_file(&path, context, None);
            let _ = std::fs::remove_file(&path);
            r
        }
    };
    format!("{}\t-", show_result(r, &shared))
}

fn main() {
    serve(|f| match f[0] {
        "Q" if f.len() >= 8 => run_case_default_env(f),
        "N" if f.len() >= 5 => nested_case(f),
        "W" if f.len() >= 4 => watchdog_during_load(f),
        "P" if f.len() >= 8 => {
            let halt = Arc::new(AtomicBool::new(f[2] == "0"));
            run_case(f, halt, 0)
        }
        "T" if f.len() >= 9 => {
            let halt = Arc::new(AtomicBool::new(false));
            let delay: u64 = f[2].parse().expect("delay");
            let h2 = halt.clone();
            let t = std::thread::spawn(move || {
                std::thread::sleep(std::time::Duration::from_micros(delay));
                h2.store(true, Ordering::SeqCst);
            });
            let out = run_case(f, halt, f[8].parse().expect("sleep"));
            let _ = t.join();
            out
        }
        _ => "BADLINE".to_string(),
    });
}
