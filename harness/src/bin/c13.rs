//! C13: the halt flag.  Same case lines as c03 (see ocaml/c03_driver.ml), run with
//! Env::new(None, None, Some(halt)) where halt is an Arc<AtomicBool> owned by the harness.
//! input:  P <src> <halt_at> <fuel> <prog> <cmds> <vars> <text>
//!            results marked "!" raise the flag from inside the command; halt_at = 0: the flag is
//!            already up when the run starts (other values are for the model only)
//!         T <src> <delay_us> <fuel> <prog> <cmds> <vars> <text> <sleep_us>
//!            a second thread raises the flag after <delay_us>; every command invocation pauses
//!            <sleep_us> so that endless programs produce a short log; from the 150th invocation on a
//!            command waits inside its run until the flag is up (bounds the log under any scheduling)
//! output: as c03, plus a 7th field: the flag's value after the run (T|F)
#[path = "../scripted.rs"]
mod scripted;
use dsverif::*;
use duckscript::runner;
use duckscript::types::env::Env;
use scripted::*;
use std::cell::RefCell;
use std::rc::Rc;
use std::sync::atomic::{AtomicBool, Ordering};
use std::sync::Arc;

fn run_case(f: &[&str], halt: Arc<AtomicBool>, sleep_us: u64) -> String {
    let shared = Rc::new(RefCell::new(Shared::default()));
    shared.borrow_mut().sleep_us = sleep_us;
    shared.borrow_mut().wait_cap = if sleep_us > 0 { 150 } else { 0 };
    let cmds = parse_cmds(f[5], &shared);
    let context = make_context(&cmds, parse_vars(f[6]));
    let text = dec_str(f[7]);
    let env = Env::new(None, None, Some(halt.clone()));
    let r = match opt_field(f[1]) {
        None => runner::run_script(&text, context, Some(env)),
        Some(path) => {
            if let Some(dir) = std::path::Path::new(&path).parent() {
                let _ = std::fs::create_dir_all(dir);
            }
            std::fs::write(&path, &text).expect("write script file");
            let r = runner::run_script_file(&path, context, Some(env));
            let _ = std::fs::remove_file(&path);
            r
        }
    };
    format!("{}\t{}", show_result(r, &shared), if halt.load(Ordering::SeqCst) { "T" } else { "F" })
}

fn main() {
    serve(|f| match f[0] {
        "P" if f.len() >= 8 => {
            let halt = Arc::new(AtomicBool::new(f[2] == "0"));
            run_case(f, halt, 0)
        }
        "T" if f.len() >= 9 => {
            let halt = Arc::new(AtomicBool::new(false));
            let delay: u64 = f[2].parse().expect("delay");
            let h2 = halt.clone();
            let t = std::thread::spawn(move || {
                std::thread::sleep(std::time::Duration::from_micros(delay));
                h2.store(true, Ordering::SeqCst);
            });
            let out = run_case(f, halt, f[8].parse().expect("sleep"));
            let _ = t.join();
            out
        }
        _ => "BADLINE".to_string(),
    });
}
