//! C09: the arguments a command receives when it is invoked directly and when it is the condition
//! of if / elseif / while / not or is reached through a user alias.
//! input:  C <env> <args>     the argument values are put in variables v0.. and written ${v0} ${v1} ..,
//!                            so they arrive verbatim at the wrapper; env adds further variables
//!         P <env> <args>     real predicates instead of the capture command: for 2 arguments equals, contains,
//!                            starts_with and a user function; for 1 argument is_empty and a user function; output
//!                            one word per predicate, six letters each (direct if elseif while not alias):
//!                            T / F = truthiness of the output resp. branch taken, E = an error was recorded,
//!                            - = not run (alias of a user function: see PA)
//!         PA <env> <arg>     is_empty-like user function called directly and through an alias (two letters);
//!                            on the unchanged tree the second call never returns (finding F7-A)
//! output of C: seven space-separated results, in the order
//!           direct if elseif while not alias alias-with-first-argument-stored
//!         each  A<list> (capture ran exactly once with these arguments) | N (it did not run) |
//!               M<k> (it ran k > 1 times) ; prefixed by E when the script recorded an error ; X<text> on a
//!               run_script error ; "-" for the last position when there is no argument to store
use dsverif::*;
use duckscript::runner;
use duckscript::types::command::{Command, CommandInvocationContext, CommandResult};

#[derive(Clone)]
struct Capture;
impl Command for Capture {
    fn name(&self) -> String {
        "capture".to_string()
    }
    fn clone_and_box(&self) -> Box<dyn Command> {
        Box::new(self.clone())
    }
    fn run(&self, context: CommandInvocationContext) -> CommandResult {
        let n: usize = context
            .variables
            .get("__cap_n")
            .and_then(|v| v.parse().ok())
            .unwrap_or(0);
        context.variables.insert("__cap_n".to_string(), (n + 1).to_string());
        context
            .variables
            .insert("__cap_args".to_string(), enc_list(&context.arguments));
        // false: an `if`/`while` body is skipped, so the command runs once
        CommandResult::Continue(Some("false".to_string()))
    }
}

fn run_one(script: &str, env: &str, args: &[String]) -> String {
    let mut context = sdk_context(true);
    context.commands.set(Box::new(Capture)).expect("set capture");
    if env != "-" {
        for pair in env.split(' ') {
            let mut it = pair.split(':');
            let n = dec_str(it.next().expect("name"));
            let v = dec_str(it.next().expect("value"));
            context.variables.insert(n, v);
        }
    }
    for (i, a) in args.iter().enumerate() {
        context.variables.insert(format!("v{}", i), a.clone());
    }
    match runner::run_script(script, context, None) {
        Ok(ctx) => {
            let n: usize = ctx.variables.get("__cap_n").and_then(|v| v.parse().ok()).unwrap_or(0);
            let e = if ctx.variables.contains_key("__first_err") { "E" } else { "" };
            if n == 0 {
                format!("{}N", e)
            } else if n == 1 {
                format!("{}A{}", e, ctx.variables.get("__cap_args").unwrap().replace(' ', ","))
            } else {
                format!("{}M{}", e, n)
            }
        }
        Err(e) => format!("X{}", enc_str(&e.to_string())),
    }
}

const FUNCTIONS: &str = "fn upred2\nr0 = ends_with ${1} ${2}\nreturn ${r0}\nend\nfn upred1\nr0 = is_empty ${1}\nreturn ${r0}\nend\n";

fn truthy(v: Option<&String>) -> bool {
    match v {
        Some(s) => {
            let l = s.to_lowercase();
            !(l.is_empty() || l == "0" || l == "false" || l == "no")
        }
        None => false,
    }
}

/// runs FUNCTIONS + script; `how`: 0 = truthiness of variable r, 1 = r == "T", 2 = n == "false"
fn run_pred(script: &str, env: &str, args: &[String], how: u8) -> char {
    let mut context = sdk_context(true);
    if env != "-" {
        for pair in env.split(' ') {
            let mut it = pair.split(':');
            let n = dec_str(it.next().expect("name"));
            let v = dec_str(it.next().expect("value"));
            context.variables.insert(n, v);
        }
    }
    for (i, a) in args.iter().enumerate() {
        context.variables.insert(format!("v{}", i), a.clone());
    }
    match runner::run_script(&format!("{}{}", FUNCTIONS, script), context, None) {
        Ok(ctx) => {
            if ctx.variables.contains_key("__first_err") {
                return 'E';
            }
            let t = match how {
                0 => truthy(ctx.variables.get("r")),
                1 => ctx.variables.get("r").map(|s| s == "T").unwrap_or(false),
                _ => ctx.variables.get("n").map(|s| s == "false").unwrap_or(false),
            };
            if t {
                'T'
            } else {
                'F'
            }
        }
        Err(_) => 'X',
    }
}

fn main() {
    serve(|f| match f[0] {
        "C" => {
            let args = dec_list(f[2]);
            let refs: Vec<String> = (0..args.len()).map(|i| format!(" ${{v{}}}", i)).collect();
            let a = refs.join("");
            let rest = if refs.is_empty() { String::new() } else { refs[1..].join("") };
            let scripts = vec![
                format!("capture{}\n", a),
                format!("if capture{}\nend\n", a),
                format!("if false\nelseif capture{}\nend\n", a),
                format!("while capture{}\nend\n", a),
                format!("r = not capture{}\n", a),
                format!("alias cap9 capture\ncap9{}\n", a),
            ];
            let mut out: Vec<String> = scripts.iter().map(|s| run_one(s, f[1], &args)).collect();
            if args.is_empty() {
                out.push("-".to_string());
            } else {
                out.push(run_one(&format!("alias cap9 capture ${{v0}}\ncap9{}\n", rest), f[1], &args));
            }
            out.join(" ")
        }
        // alias HISTORY: an alias defined on top of another alias that is later removed and defined again must resolve the
        // inner alias when it is CALLED (invoking through an alias = invoking directly, at the time of the invocation)
        "AH" => {
            let args = dec_list(f[2]);
            if args.len() < 4 {
                return "BADLINE".to_string();
            }
            let rest: String = (3..args.len()).map(|i| format!(" ${{v{}}}", i)).collect();
            let direct = format!("alias base9 capture ${{v2}}\nbase9 ${{v1}}{}\n", rest);
            let chain = format!(
                "alias base9 capture ${{v0}}\nalias derived9 base9 ${{v1}}\nunalias base9\nalias base9 capture ${{v2}}\nderived9{}\n",
                rest
            );
            format!("{} {}", run_one(&direct, f[1], &args), run_one(&chain, f[1], &args))
        }
        // call HISTORY: CH <env> <args> <earlier lines>: the six positions (no stored-argument alias), each after the earlier
        // lines in the SAME run; the capture counter and the first-error mark are reset before the call under test
        "CH" => {
            let args = dec_list(f[2]);
            let pre = dec_str(f[3]);
            let refs: Vec<String> = (0..args.len()).map(|i| format!(" ${{v{}}}", i)).collect();
            let a = refs.join("");
            let reset = "__cap_n = set 0\n__first_err = set\n";
            let scripts = vec![
                format!("{}{}capture{}\n", pre, reset, a),
                format!("{}{}if capture{}\nend\n", pre, reset, a),
                format!("{}{}if false\nelseif capture{}\nend\n", pre, reset, a),
                format!("{}{}while capture{}\nend\n", pre, reset, a),
                format!("{}{}r = not capture{}\n", pre, reset, a),
                format!("{}{}alias cap9 capture\ncap9{}\n", pre, reset, a),
            ];
            let out: Vec<String> = scripts.iter().map(|s| run_one(s, f[1], &args)).collect();
            out.join(" ")
        }
        "P" => {
            let args = dec_list(f[2]);
            let refs: Vec<String> = (0..args.len()).map(|i| format!(" ${{v{}}}", i)).collect();
            let a = refs.join("");
            let preds: Vec<&str> = if args.len() == 2 {
                vec!["equals", "contains", "starts_with", "upred2"]
            } else {
                vec!["is_empty", "upred1"]
            };
            let mut out = vec![];
            for p in preds {
                let mut w = String::new();
                w.push(run_pred(&format!("r = {}{}\n", p, a), f[1], &args, 0));
                w.push(run_pred(&format!("r = set F\nif {}{}\nr = set T\nend\n", p, a), f[1], &args, 1));
                w.push(run_pred(&format!("r = set F\nif false\nelseif {}{}\nr = set T\nend\n", p, a), f[1], &args, 1));
                w.push(run_pred(&format!("r = set F\nwhile {}{}\nr = set T\nexit\nend\n", p, a), f[1], &args, 1));
                w.push(run_pred(&format!("n = not {}{}\n", p, a), f[1], &args, 2));
                if p.starts_with("upred") {
                    // an alias of a user function does not return (finding F7-A): exercised by PA only
                    w.push('-');
                } else {
                    w.push(run_pred(&format!("alias al9 {}\nr = al9{}\n", p, a), f[1], &args, 0));
                }
                out.push(w);
            }
            out.join(" ")
        }
        "PA" => {
            // witness of F7-A: a user function reached through an alias (may never return)
            let args = dec_list(f[2]);
            let mut w = String::new();
            w.push(run_pred("r = upred1 ${v0}\n", f[1], &args, 0));
            w.push(run_pred("alias al9 upred1\nr = al9 ${v0}\n", f[1], &args, 0));
            w
        }
        "S" => {
            // debugging aid: S <env> <args> <script text> -> result letter of the script (how = 0)
            let args = dec_list(f[2]);
            run_pred(&dec_str(f[3]), f[1], &args, 0).to_string()
        }
        _ => "BADLINE".to_string(),
    });
}
