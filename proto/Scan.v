From Coq Require Import List Arith Bool Lia.
Import ListNotations.

Section Scan.
Variable name : Type.
Variable name_eqb : name -> name -> bool.
Definition mem (c : name) (l : list name) := existsb (name_eqb c) l.

Record tables := { starts : list name; middles : list name; ends : list name; sblocks : list name; eblocks : list name }.
Inductive sres := SOk (mid : list nat) (e : nat) | SMissing | SNested.
Definition instr := option name.

Fixpoint scan (T : tables) (l : list instr) (pos skip_to delta : nat) (mid : list nat) {struct l} : sres :=
  match l with
  | [] => SMissing
  | i :: l' =>
    if pos <? skip_to then scan T l' (S pos) skip_to delta mid
    else match i with
      | None => scan T l' (S pos) skip_to delta mid
      | Some c =>
        if mem c (sblocks T) then scan T l' (S pos) skip_to (S delta) mid
        else if mem c (middles T) then scan T l' (S pos) skip_to delta (mid ++ [pos])
        else if mem c (eblocks T) && (0 <? delta) then scan T l' (S pos) skip_to (delta - 1) mid
        else if mem c (ends T) then SOk mid pos
        else if mem c (starts T) then
          match scan T l' (S pos) (S pos) 0 [] with
          | SOk _ e => scan T l' (S pos) (S e) delta mid
          | _ => SNested
          end
        else scan T l' (S pos) skip_to delta mid
      end
  end.

Inductive stmt :=
| SCmd (c : option name)
| SOwn (o : name) (b : block) (ms : mids) (c : name)      (* construct of the scanner's own kind *)
| SOther (o : name) (b : block) (ms : mids) (c : name)    (* construct of another kind *)
with block := BNil | BCons (s : stmt) (b : block)
with mids := MNil | MCons (m : name) (b : block) (ms : mids).
Scheme stmt_ind3 := Induction for stmt Sort Prop
  with block_ind3 := Induction for block Sort Prop
  with mids_ind3 := Induction for mids Sort Prop.
Combined Scheme syntax_ind from stmt_ind3, block_ind3, mids_ind3.

Fixpoint cs (s : stmt) : list instr :=
  match s with
  | SCmd c => [c]
  | SOwn o b ms c => Some o :: cb b ++ cm ms ++ [Some c]
  | SOther o b ms c => Some o :: cb b ++ cm ms ++ [Some c]
  end
with cb (b : block) : list instr := match b with BNil => [] | BCons s b => cs s ++ cb b end
with cm (ms : mids) : list instr := match ms with MNil => [] | MCons m b ms => Some m :: cb b ++ cm ms end.

Variable T : tables.
Record inert (c : name) : Prop := { i1 : mem c (starts T) = false; i2 : mem c (middles T) = false;
  i3 : mem c (ends T) = false; i4 : mem c (sblocks T) = false; i5 : mem c (eblocks T) = false }.

(* [own] tells whether middles are seen from inside an own-kind construct (they are T's middle names)
   or from another kind (they are inert for T) *)
Fixpoint wfs (s : stmt) : Prop :=
  match s with
  | SCmd None => True
  | SCmd (Some c) => inert c
  | SOwn o b ms c =>
      (mem o (sblocks T) = false /\ mem o (middles T) = false /\ mem o (eblocks T) = false
       /\ mem o (ends T) = false /\ mem o (starts T) = true)
      /\ (mem c (sblocks T) = false /\ mem c (middles T) = false /\ mem c (ends T) = true)
      /\ wfb b /\ wfm true ms
  | SOther o b ms c =>
      mem o (sblocks T) = true
      /\ (mem c (sblocks T) = false /\ mem c (middles T) = false /\ mem c (eblocks T) = true)
      /\ wfb b /\ wfm false ms
  end
with wfb (b : block) : Prop := match b with BNil => True | BCons s b => wfs s /\ wfb b end
with wfm (own : bool) (ms : mids) : Prop :=
  match ms with
  | MNil => True
  | MCons m b ms => (if own then mem m (sblocks T) = false /\ mem m (middles T) = true else inert m)
                    /\ wfb b /\ wfm own ms
  end.

Lemma skip_irrel l : forall pos s1 s2 d m, s1 <= pos -> s2 <= pos -> scan T l pos s1 d m = scan T l pos s2 d m.
Proof.
  induction l as [|i l IH]; intros pos s1 s2 d m H1 H2; cbn [scan]; [reflexivity|].
  destruct (Nat.ltb_spec pos s1); [lia|]. destruct (Nat.ltb_spec pos s2); [lia|].
  destruct i as [c|]; [|apply IH; lia].
  repeat match goal with |- context [if ?b then _ else _] => destruct b end; try reflexivity; try (apply IH; lia).
Qed.

Lemma skip_ahead l1 : forall rest pos sk d m, pos + length l1 <= sk ->
  scan T (l1 ++ rest) pos sk d m = scan T rest (pos + length l1) sk d m.
Proof.
  induction l1 as [|i l1 IH]; intros rest pos sk d m H; cbn [app length scan].
  - now rewrite Nat.add_0_r.
  - cbn in H. destruct (Nat.ltb_spec pos sk); [|lia]. rewrite IH by lia. f_equal; lia.
Qed.

(* positions of the middle keywords of an own-kind construct whose first middle is at [pos] *)
Fixpoint mid_pos (ms : mids) (pos : nat) : list nat :=
  match ms with MNil => [] | MCons _ b ms => pos :: mid_pos ms (S pos + length (cb b)) end.

Lemma scan0 i l pos d m : scan T (i :: l) pos 0 d m =
  match i with
  | None => scan T l (S pos) 0 d m
  | Some c =>
    if mem c (sblocks T) then scan T l (S pos) 0 (S d) m
    else if mem c (middles T) then scan T l (S pos) 0 d (m ++ [pos])
    else if mem c (eblocks T) && (0 <? d) then scan T l (S pos) 0 (d - 1) m
    else if mem c (ends T) then SOk m pos
    else if mem c (starts T) then
      match scan T l (S pos) (S pos) 0 [] with
      | SOk _ e => scan T l (S pos) (S e) d m
      | _ => SNested
      end
    else scan T l (S pos) 0 d m
  end.
Proof. cbn [scan]. rewrite (proj2 (Nat.ltb_ge pos 0)) by lia. reflexivity. Qed.

Lemma scan_syntax :
  (forall s, wfs s -> forall rest pos d m,
      scan T (cs s ++ rest) pos 0 d m = scan T rest (pos + length (cs s)) 0 d m) /\
  (forall b, wfb b -> forall rest pos d m,
      scan T (cb b ++ rest) pos 0 d m = scan T rest (pos + length (cb b)) 0 d m) /\
  (forall ms, (wfm true ms -> forall rest pos d m,
      scan T (cm ms ++ rest) pos 0 d m = scan T rest (pos + length (cm ms)) 0 d (m ++ mid_pos ms pos)) /\
              (wfm false ms -> forall rest pos d m,
      scan T (cm ms ++ rest) pos 0 d m = scan T rest (pos + length (cm ms)) 0 d m)).
Proof.
  apply syntax_ind.
  - (* SCmd *) intros [c|] Hw rest pos d m; cbn [cs app length]; rewrite scan0, ?Nat.add_1_r; [|reflexivity].
    cbn in Hw. destruct Hw as [H1 H2 H3 H4 H5]. rewrite H4, H2, H5, H3, H1. cbn. reflexivity.
  - (* SOwn *) intros o b IHb ms [IHms _] c Hw rest pos d m.
    cbn in Hw. destruct Hw as ((Ho1 & Ho2 & Ho3 & Ho4 & Ho5) & (Hc1 & Hc2 & Hc3) & Hwb & Hwm).
    cbn [cs app]. rewrite scan0. rewrite Ho1, Ho2, Ho3, Ho4, Ho5. cbn [andb].
    (* the recursive call finds the construct's own end *)
    assert (Hrec : scan T ((cb b ++ cm ms ++ [Some c]) ++ rest) (S pos) (S pos) 0 []
                   = SOk (mid_pos ms (S pos + length (cb b))) (S pos + length (cb b) + length (cm ms))).
    { rewrite (skip_irrel _ _ (S pos) 0) by lia.
      rewrite <- !app_assoc. rewrite IHb by auto. rewrite IHms by auto. cbn [app]. rewrite scan0.
      rewrite Hc1, Hc2. cbn. destruct (mem c (eblocks T)); cbn; rewrite Hc3; reflexivity. }
    rewrite Hrec.
    assert (Hlen : length (cb b ++ cm ms ++ [Some c]) = length (cb b) + length (cm ms) + 1)
      by (rewrite !app_length; cbn [length]; lia).
    rewrite skip_ahead by (rewrite Hlen; lia).
    rewrite (skip_irrel _ _ _ 0) by (rewrite Hlen; lia).
    f_equal. cbn [length]. rewrite Hlen. lia.
  - (* SOther *) intros o b IHb ms [_ IHms] c Hw rest pos d m.
    cbn in Hw. destruct Hw as (Ho & (Hc1 & Hc2 & Hc3) & Hwb & Hwm).
    cbn [cs app]. rewrite scan0, Ho.
    rewrite <- !app_assoc. rewrite IHb by auto. rewrite IHms by auto. cbn [app]. rewrite scan0.
    rewrite Hc1, Hc2, Hc3. cbn [andb Nat.ltb Nat.leb Nat.sub]. rewrite ?Nat.sub_0_r.
    f_equal. cbn [length]. rewrite !app_length. cbn [length]. lia.
  - (* BNil *) intros _ rest pos d m. cbn. now rewrite Nat.add_0_r.
  - (* BCons *) intros s IHs b IHb [Hs Hb] rest pos d m. cbn [cb]. rewrite <- app_assoc, IHs, IHb by auto.
    f_equal. rewrite app_length. lia.
  - (* MNil *) split; intros _ rest pos d m; cbn; rewrite ?Nat.add_0_r, ?app_nil_r; reflexivity.
  - (* MCons *) intros mname b IHb ms [IHt IHf]. split.
    + intros ((Hm1 & Hm2) & Hwb & Hwm) rest pos d m. cbn [cm app mid_pos]. rewrite scan0, Hm1, Hm2.
      rewrite <- app_assoc, IHb, IHt by auto. rewrite <- app_assoc. cbn [app].
      f_equal. cbn [length]. rewrite app_length. lia.
    + intros (Hm & Hwb & Hwm) rest pos d m. cbn [cm app]. rewrite scan0. destruct Hm as [H1 H2 H3 H4 H5].
      rewrite H4, H2, H5, H3, H1. cbn.
      rewrite <- app_assoc, IHb, IHf by auto. f_equal. cbn [length]. rewrite app_length. lia.
Qed.

(* the statement the flow-control commands rely on: from the line after an own-kind opener the
   scanner returns exactly the middle positions and the end position *)
Theorem find_own_end o b ms c rest pos : wfs (SOwn o b ms c) ->
  scan T (cb b ++ cm ms ++ [Some c] ++ rest) (S pos) (S pos) 0 []
  = SOk (mid_pos ms (S pos + length (cb b))) (S pos + length (cb b) + length (cm ms)).
Proof.
  intros Hw. cbn in Hw. destruct Hw as (_ & (Hc1 & Hc2 & Hc3) & Hwb & Hwm).
  destruct scan_syntax as (_ & Hb & Hm).
  rewrite (skip_irrel _ _ (S pos) 0) by lia.
  rewrite Hb by auto. destruct (Hm ms) as [Hmt _]. rewrite Hmt by auto. cbn [app]. rewrite scan0.
  rewrite Hc1, Hc2. cbn. destruct (mem c (eblocks T)); cbn; rewrite Hc3; reflexivity.
Qed.
End Scan.
Print Assumptions find_own_end.
