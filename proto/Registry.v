From stdpp Require Import gmap list.

Section Reg.
Context {name : Type} `{Countable name}.

Record reg := Reg { cmds : gmap name (list name) (* declared aliases *); als : gmap name name }.

Definition set (r : reg) (n : name) (decl : list name) : option reg :=
  if decide (is_Some (cmds r !! n)) then None
  else if decide (Exists (fun a => is_Some (als r !! a)) decl) then None
  else Some (Reg (<[n := decl]> (cmds r))
                 (foldr (fun a m => <[a := n]> m) (delete n (als r)) decl)).

Definition resolve (r : reg) (x : name) : name := default x (als r !! x).
Definition get (r : reg) (x : name) : option name :=
  let n := resolve r x in if decide (is_Some (cmds r !! n)) then Some n else None.

(* pinned code: removes every alias the removed command declared *)
Definition remove_pinned (r : reg) (x : name) : reg * bool :=
  let n := resolve r x in
  match cmds r !! n with
  | Some decl => (Reg (delete n (cmds r)) (foldr (fun a m => delete a m) (als r) decl), true)
  | None => (r, false)
  end.
(* repaired: only those that still point to it *)
Definition remove_fixed (r : reg) (x : name) : reg * bool :=
  let n := resolve r x in
  match cmds r !! n with
  | Some decl => (Reg (delete n (cmds r))
                      (foldr (fun a m => if decide (m !! a = Some n) then delete a m else m) (als r) decl), true)
  | None => (r, false)
  end.

Definition Inv (r : reg) : Prop :=
  forall a n, als r !! a = Some n -> exists decl, cmds r !! n = Some decl /\ a ∈ decl.

Lemma foldr_insert_lookup (decl : list name) (n : name) (m : gmap name name) a :
  foldr (fun a m => <[a := n]> m) m decl !! a = if decide (a ∈ decl) then Some n else m !! a.
Proof.
  induction decl as [|d decl IH]; cbn [foldr].
  - destruct (decide (a ∈ [])) as [Hx|]; [by apply elem_of_nil in Hx|done].
  - destruct (decide (a = d)) as [->|Hne].
    + rewrite lookup_insert. destruct (decide (d ∈ d :: decl)) as [|Hx]; [done|].
      exfalso; apply Hx; apply elem_of_list_here.
    + rewrite lookup_insert_ne by congruence. rewrite IH.
      destruct (decide (a ∈ decl)), (decide (a ∈ d :: decl)); try done; exfalso; set_solver.
Qed.

Lemma set_inv r n decl r' : Inv r -> set r n decl = Some r' -> Inv r'.
Proof.
  unfold set. intros HI Hs.
  destruct (decide (is_Some (cmds r !! n))) as [|Hn]; [done|].
  destruct (decide (Exists _ decl)) as [|Hd]; [done|]. simplify_eq. intros a m Ha. simpl in *.
  rewrite foldr_insert_lookup in Ha.
  destruct (decide (a ∈ decl)).
  - simplify_eq. exists decl. by rewrite lookup_insert.
  - destruct (decide (a = n)) as [->|]; [by rewrite lookup_delete in Ha|].
    rewrite lookup_delete_ne in Ha by congruence.
    destruct (HI _ _ Ha) as (d & Hd' & Hin). exists d. split; [|done].
    rewrite lookup_insert_ne; [done|]. intros ->. apply Hn. by eexists.
Qed.

Lemma foldr_del_fixed_lookup (decl : list name) (n : name) (m : gmap name name) : forall a,
  foldr (fun a m => if decide (m !! a = Some n) then delete a m else m) m decl !! a
  = if decide (a ∈ decl /\ m !! a = Some n) then None else m !! a.
Proof.
  induction decl as [|d decl IH]; intros a; cbn [foldr].
  - destruct (decide (a ∈ [] /\ m !! a = Some n)) as [[Hx _]|]; [by apply elem_of_nil in Hx|done].
  - set (m' := foldr _ m decl) in *.
    pose proof (IH d) as Hd. pose proof (IH a) as Ha. clear IH.
    destruct (decide (m' !! d = Some n)) as [Hmd|Hmd].
    + destruct (decide (a = d)) as [->|Hne].
      * rewrite lookup_delete.
        destruct (decide (d ∈ d :: decl /\ m !! d = Some n)) as [|Hx]; [done|].
        exfalso. apply Hx. split; [apply elem_of_list_here|].
        rewrite Hd in Hmd. by destruct (decide (d ∈ decl /\ m !! d = Some n)).
      * rewrite lookup_delete_ne by congruence. rewrite Ha.
        destruct (decide (a ∈ decl /\ m !! a = Some n)) as [[? ?]|Hx],
                 (decide (a ∈ d :: decl /\ m !! a = Some n)) as [[? ?]|Hy]; try done.
        -- exfalso. apply Hy. split; [by apply elem_of_list_further|done].
        -- exfalso. apply Hx. split; [|done]. set_solver.
    + rewrite Ha.
      destruct (decide (a ∈ decl /\ m !! a = Some n)) as [[? ?]|Hx],
               (decide (a ∈ d :: decl /\ m !! a = Some n)) as [[Hin Hm]|Hy]; try done.
      * exfalso. apply Hy. split; [by apply elem_of_list_further|done].
      * exfalso. apply elem_of_cons in Hin as [->|Hin]; [|by apply Hx].
        rewrite Hd in Hmd. destruct (decide (d ∈ decl /\ m !! d = Some n)) as [[? ?]|]; [by apply Hx|done].
Qed.

(* the property's sentence: removing a command removes it and exactly the aliases pointing to it *)
Theorem remove_fixed_exact r x r' : Inv r -> remove_fixed r x = (r', true) ->
  let n := resolve r x in
  cmds r' = delete n (cmds r) /\
  forall a, als r' !! a = if decide (als r !! a = Some n) then None else als r !! a.
Proof.
  unfold remove_fixed. intros HI Hr. simpl.
  destruct (cmds r !! resolve r x) as [decl|] eqn:Hc; [|done]. simplify_eq. simpl. split; [done|].
  intros a. rewrite foldr_del_fixed_lookup.
  destruct (decide (als r !! a = Some (resolve r x))) as [Ha|Ha].
  - rewrite decide_True; [done|]. split; [|done].
    destruct (HI _ _ Ha) as (d & Hd & Hin). by simplify_eq.
  - rewrite decide_False; [done|]. by intros [_ ?].
Qed.
End Reg.

(* F11 on the pinned code: set a[x]; set x[]; set c[x]; remove a   drops x -> c *)
Definition r0 : reg (name:=nat) := Reg ∅ ∅.
Definition hist_pinned :=
  r1 ← set r0 1 [10]; r2 ← set r1 10 []; r3 ← set r2 3 [10];
  Some (als (fst (remove_pinned r3 1)) !! 10, als (fst (remove_fixed r3 1)) !! 10).
Lemma F11_refuted : hist_pinned = Some (None, Some 3).
Proof. vm_compute. reflexivity. Qed.
Print Assumptions remove_fixed_exact.
