From Coq Require Import List NArith ZArith Bool Lia.
Import ListNotations.
Open Scope N_scope.

Definition str := list N.
Fixpoint str_eqb (a b : str) : bool :=
  match a, b with
  | [], [] => true
  | x :: a', y :: b' => N.eqb x y && str_eqb a' b'
  | _, _ => false
  end.
Lemma str_eqb_spec a b : reflect (a = b) (str_eqb a b).
Proof.
  revert b; induction a as [|x a IH]; intros [|y b]; cbn; try (constructor; congruence).
  destruct (N.eqb_spec x y); cbn.
  - destruct (IH b); constructor; congruence.
  - constructor; congruence.
Qed.

Definition s_open : str := [40]. Definition s_close : str := [41].
Definition s_and : str := [97;110;100]. Definition s_or : str := [111;114].

(* is_true is a parameter of this file: any boolean valuation of strings *)
Section Cond.
Variable truth : str -> bool.

Inductive ftok := FNone | FAnd | FOr | FValue.
Inductive res := Ok (b : bool) | Err (code : N) | Fuel.

Record st := mk { cnt : Z; grp : list str; total : option bool; partial : option bool; found : ftok }.
Definition init := mk 0 [] None None FNone.
Definition unwrap_or (o : option bool) (d : bool) := match o with Some b => b | None => d end.

(* [fix_first] = true models the repaired code (group in first position stored in partial) *)
Variable fix_first : bool.

Definition put_value (s : st) (e : bool) : option st :=
  match found s with
  | FNone => Some (mk (cnt s) (grp s) (total s) (Some e) FValue)
  | FAnd => Some (mk (cnt s) (grp s) (total s) (Some e) FValue)
  | FOr => Some (mk (cnt s) (grp s) (total s) (Some (e || unwrap_or (partial s) false)) FValue)
  | FValue => None
  end.
Definition put_group (s : st) (e : bool) : option st :=
  match found s with
  | FNone => if fix_first then Some (mk (cnt s) (grp s) (total s) (Some e) FValue)
             else Some (mk (cnt s) (grp s) (Some e) (partial s) FValue)
  | _ => put_value s e
  end.

Definition final (s : st) : bool :=
  match total s, partial s with
  | None, None => false
  | _, _ => unwrap_or (partial s) true && unwrap_or (total s) true
  end.

Fixpoint go (ev : list str -> res) (l : list str) (s : st) {struct l} : res :=
  match l with
  | [] => if (0 <? cnt s)%Z then Err 1 else Ok (final s)
  | a :: l' =>
    if str_eqb a s_open then
      go ev l' (mk (cnt s + 1) (if (cnt s =? 0)%Z then [] else a :: grp s) (total s) (partial s) (found s))
    else if str_eqb a s_close then
      let c := (cnt s - 1)%Z in
      if (c =? 0)%Z then
        match ev (rev (grp s)) with
        | Ok e => match put_group (mk 0 [] (total s) (partial s) (found s)) e with
                  | Some s' => go ev l' s'
                  | None => Err 2
                  end
        | r => r
        end
      else if (c <? 0)%Z then Err 3
      else go ev l' (mk c (a :: grp s) (total s) (partial s) (found s))
    else if (0 <? cnt s)%Z then go ev l' (mk (cnt s) (a :: grp s) (total s) (partial s) (found s))
    else if str_eqb a s_and then
      match found s with
      | FValue =>
        let t := unwrap_or (total s) true && unwrap_or (partial s) true in
        if t then go ev l' (mk (cnt s) (grp s) (Some t) None FAnd) else Ok false
      | _ => Err 4
      end
    else if str_eqb a s_or then
      match found s with
      | FValue => go ev l' (mk (cnt s) (grp s) (total s) (partial s) FOr)
      | _ => Err 5
      end
    else match put_value s (truth a) with Some s' => go ev l' s' | None => Err 2 end
  end.

Fixpoint eval (fuel : nat) (args : list str) {struct fuel} : res :=
  match fuel with
  | O => Fuel
  | S fuel' => match args with [] => Ok false | _ => go (eval fuel') args init end
  end.

End Cond.

Definition t_true : str := [116]. Definition t_false : str := [102].
Definition tr (s : str) := str_eqb s t_true.
Eval vm_compute in eval tr false 10 [s_open; t_false; s_close; s_or; t_true].
Eval vm_compute in eval tr true 10 [s_open; t_false; s_close; s_or; t_true].
Eval vm_compute in eval tr true 10 [t_false; s_or; t_true; s_and; s_open; s_open; s_close; s_or; t_true; s_close].
