import itertools, subprocess, sys
TOK=['true','false','and','or','(',')']
def parse(ts):
    # cond ::= atom ((and|or) atom)* ; atom ::= value | ( cond? )
    pos=0
    def atom():
        nonlocal pos
        if pos>=len(ts): raise ValueError
        t=ts[pos]
        if t in('true','false'):
            pos+=1; return ('v',t=='true')
        if t=='(':
            pos+=1
            if pos<len(ts) and ts[pos]==')':
                pos+=1; return ('g',None)
            c=cond()
            if pos>=len(ts) or ts[pos]!=')': raise ValueError
            pos+=1; return ('g',c)
        raise ValueError
    def cond():
        nonlocal pos
        items=[atom()]; ops=[]
        while pos<len(ts) and ts[pos] in('and','or'):
            ops.append(ts[pos]); pos+=1; items.append(atom())
        return ('c',items,ops)
    c=cond()
    if pos!=len(ts): raise ValueError
    return c
def ev(c):
    _,items,ops=c
    def eva(a):
        if a[0]=='v': return a[1]
        return False if a[1] is None else ev(a[1])
    # and of ors
    groups=[[eva(items[0])]]
    for op,a in zip(ops,items[1:]):
        if op=='or': groups[-1].append(eva(a))
        else: groups.append([eva(a)])
    return all(any(g) for g in groups)
cases=[]
for n in range(1,8):
    for ts in itertools.product(TOK,repeat=n):
        try: c=parse(list(ts))
        except ValueError: continue
        cases.append((ts,ev(c)))
print(len(cases),"wellformed")
with open('c.ds','w') as f:
    for i,(ts,_) in enumerate(cases): f.write("r%d = not %s\n"%(i,' '.join(ts)))
out=subprocess.run(['/root/scratch/target/debug/probe','c.ds'],capture_output=True,text=True).stdout
vals={}
for line in out.splitlines():
    line=line.strip()
    if line.startswith('r') and ' = ' in line:
        k,v=line.split(' = ',1); vals[k]=v.strip('"')
bad=[]
for i,(ts,exp) in enumerate(cases):
    got=vals.get('r%d'%i)
    want='false' if exp else 'true'
    if got!=want: bad.append((' '.join(ts),want,got))
print(len(bad),"deviations")
for b in bad[:40]: print(b)
# classify: all deviations have a group first followed by or?
import re
print(sum(1 for b in bad if not re.search(r'\) or', b[0])),"deviations without ') or'")
