use duckscript::runner;
use duckscript::types::runtime::Context;
use std::panic;
fn main() {
    let args: Vec<String> = std::env::args().collect();
    let text = std::fs::read_to_string(&args[1]).unwrap();
    let r = panic::catch_unwind(|| {
        let mut context = Context::new();
        duckscriptsdk::load(&mut context.commands).unwrap();
        runner::run_script(&text, context, None)
    });
    match r {
        Err(_) => println!("RESULT: PANIC"),
        Ok(Err(e)) => println!("RESULT: ERR {}", e),
        Ok(Ok(ctx)) => {
            let mut v: Vec<_> = ctx.variables.iter().collect();
            v.sort();
            println!("RESULT: OK");
            for (k, val) in v { println!("  {} = {:?}", k, val); }
        }
    }
}
