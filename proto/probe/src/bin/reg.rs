use duckscript::types::command::{Command, CommandInvocationContext, CommandResult, Commands};
#[derive(Clone)]
struct C { n: String, a: Vec<String> }
impl Command for C {
    fn name(&self) -> String { self.n.clone() }
    fn aliases(&self) -> Vec<String> { self.a.clone() }
    fn clone_and_box(&self) -> Box<dyn Command> { Box::new(self.clone()) }
    fn run(&self, _c: CommandInvocationContext) -> CommandResult { CommandResult::Continue(Some(self.n.clone())) }
}
fn c(n: &str, a: &[&str]) -> Box<dyn Command> { Box::new(C { n: n.to_string(), a: a.iter().map(|s| s.to_string()).collect() }) }
fn dump(cs: &Commands) {
    let mut names = cs.get_all_command_names(); names.sort();
    let mut al: Vec<_> = cs.aliases.iter().collect(); al.sort();
    println!("  names={:?} aliases={:?}", names, al);
}
fn main() {
    let mut cs = Commands::new();
    println!("set a[x] {:?}", cs.set(c("a", &["x"])).is_ok()); dump(&cs);
    println!("set x[] {:?}", cs.set(c("x", &[])).is_ok()); dump(&cs);
    println!("set c[x] {:?}", cs.set(c("c", &["x"])).is_ok()); dump(&cs);
    println!("get x -> {:?}", cs.get("x").map(|c| c.name()));
    println!("remove a {:?}", cs.remove("a")); dump(&cs);
    println!("get x -> {:?}", cs.get("x").map(|c| c.name()));
    // second scenario: alias set with dup inside one command
    let mut cs = Commands::new();
    println!("set a[x,x] {:?}", cs.set(c("a", &["x","x"])).is_ok()); dump(&cs);
    // name equals own alias
    println!("set b[b] {:?}", cs.set(c("b", &["b"])).is_ok()); dump(&cs);
    println!("remove b {:?}", cs.remove("b")); dump(&cs);
    // alias equal to an existing name
    let mut cs = Commands::new();
    cs.set(c("n", &[])).unwrap();
    println!("set m[n] {:?}", cs.set(c("m", &["n"])).is_ok()); dump(&cs);
    println!("get n -> {:?}", cs.get("n").map(|c| c.name()));
    println!("remove n {:?}", cs.remove("n")); dump(&cs);
    println!("get n -> {:?} exists m {:?}", cs.get("n").map(|c| c.name()), cs.exists("m"));
}
