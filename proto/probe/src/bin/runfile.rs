use duckscript::runner;
use duckscript::parser;
use duckscript::types::runtime::Context;
fn main() {
    let args: Vec<String> = std::env::args().collect();
    match parser::parse_file(&args[1]) {
        Ok(ins) => for (i, x) in ins.iter().enumerate() { println!("{} {:?} {:?}", i, x.meta_info, x.instruction_type); },
        Err(e) => println!("PARSE ERR {}", e),
    }
    let mut context = Context::new();
    duckscriptsdk::load(&mut context.commands).unwrap();
    match runner::run_script_file(&args[1], context, None) {
        Err(e) => println!("RESULT: ERR {}", e),
        Ok(c) => { let mut v: Vec<_> = c.variables.iter().collect(); v.sort(); println!("RESULT: OK {:?}", v) },
    }
}
