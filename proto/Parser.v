From Coq Require Import List NArith Bool Lia.
Import ListNotations.
Open Scope N_scope.

Definition char := N.
Definition str := list char.
Definition c_sp : char := 32. Definition c_quote : char := 34. Definition c_hash : char := 35.
Definition c_dollar : char := 36. Definition c_eq : char := 61. Definition c_bs : char := 92.
Definition c_lbrace : char := 123. Definition c_n : char := 110. Definition c_r : char := 114.
Definition c_t : char := 116. Definition c_lf : char := 10. Definition c_cr : char := 13. Definition c_tab : char := 9.

Inductive perr := ControlWithoutValidValue | InvalidControlLocation | MissingEndQuotes | InvalidQuotesLocation.
Inductive pres (A : Type) := POk (a : A) | PErr (e : perr).
Arguments POk {A}. Arguments PErr {A}.

Record flags := { allow_quotes : bool; allow_control : bool; stop_on_equals : bool; control_as_char : bool }.

Definition finish (acc : str) (uq : bool) : option str :=
  match acc with [] => if uq then Some [] else None | _ => Some (rev acc) end.

(* state after the first character of a value was seen (Rust: in_argument = true) *)
Fixpoint in_arg (fl : flags) (l : str) (acc : str) (uq ic fvp : bool) {struct l} : pres (str * option str) :=
  match l with
  | [] => if ic then PErr ControlWithoutValidValue
          else if uq then PErr MissingEndQuotes
          else POk ([], finish acc false)
  | c :: l' =>
    if ic then
      if fvp then
        if c =? c_lbrace then in_arg fl l' (c_lbrace :: c_dollar :: c_bs :: acc) uq false false
        else PErr ControlWithoutValidValue
      else if (c =? c_bs) || (c =? c_quote) then in_arg fl l' (c :: acc) uq false false
      else if c =? c_n then in_arg fl l' (c_lf :: acc) uq false false
      else if c =? c_r then in_arg fl l' (c_cr :: acc) uq false false
      else if c =? c_t then in_arg fl l' (c_tab :: acc) uq false false
      else if c =? c_dollar then in_arg fl l' acc uq true true
      else PErr ControlWithoutValidValue
    else if c =? c_bs then
      if control_as_char fl then in_arg fl l' (c :: acc) uq false false
      else if allow_control fl then in_arg fl l' acc uq true false
      else PErr InvalidControlLocation
    else if uq && (c =? c_quote) then POk (l', finish acc true)
    else if negb uq && ((c =? c_sp) || (c =? c_hash) || (stop_on_equals fl && (c =? c_eq))) then
      POk ((if c =? c_hash then [] else c :: l'), finish acc false)
    else in_arg fl l' (c :: acc) uq false false
  end.

Fixpoint skip (fl : flags) (l : str) {struct l} : pres (str * option str) :=
  match l with
  | [] => POk ([], None)
  | c :: l' =>
    if c =? c_hash then POk ([], None)
    else if c =? c_sp then skip fl l'
    else if c =? c_quote then
      if allow_quotes fl then in_arg fl l' [] true false false else PErr InvalidQuotesLocation
    else if c =? c_bs then
      if control_as_char fl then in_arg fl l' [c] false false false
      else if allow_control fl then in_arg fl l' [] false true false
      else PErr InvalidControlLocation
    else in_arg fl l' [c] false false false
  end.

Definition arg_flags := Build_flags true true false false.

(* ---------- documented concrete syntax of one argument ---------- *)
Inductive rchar := Raw (c : char) | EBs | EQuote | ELf | ECr | ETab.
Definition denote (r : rchar) : char :=
  match r with Raw c => c | EBs => c_bs | EQuote => c_quote | ELf => c_lf | ECr => c_cr | ETab => c_tab end.
Definition emit (r : rchar) : str :=
  match r with Raw c => [c] | EBs => [c_bs; c_bs] | EQuote => [c_bs; c_quote] | ELf => [c_bs; c_n]
             | ECr => [c_bs; c_r] | ETab => [c_bs; c_t] end.
Definition ok_q (r : rchar) : bool :=
  match r with Raw c => negb ((c =? c_bs) || (c =? c_quote)) | _ => true end.
Definition ok_u (r : rchar) : bool :=
  match r with Raw c => negb ((c =? c_bs) || (c =? c_sp) || (c =? c_hash)) | _ => true end.

Lemma in_arg_quoted rs : forallb ok_q rs = true -> forall rest acc,
  in_arg arg_flags (flat_map emit rs ++ c_quote :: rest) acc true false false
  = POk (rest, finish (rev (map denote rs) ++ acc) true).
Proof.
  induction rs as [|r rs IH]; intros Hok rest acc.
  - cbn. reflexivity.
  - cbn [forallb] in Hok. apply andb_true_iff in Hok as [Hr Hrs].
    cbn [flat_map map rev]. rewrite <- ?app_assoc.
    destruct r as [c| | | | |]; cbn [emit denote app].
    + cbn in Hr. apply negb_true_iff, orb_false_iff in Hr as [H1 H2].
      cbn [in_arg]. rewrite H1. cbn. rewrite H2. cbn.
      rewrite IH by auto. reflexivity.
    + cbn [in_arg]. cbn. rewrite IH by auto. reflexivity.
    + cbn [in_arg]. cbn. rewrite IH by auto. reflexivity.
    + cbn [in_arg]. cbn. rewrite IH by auto. reflexivity.
    + cbn [in_arg]. cbn. rewrite IH by auto. reflexivity.
    + cbn [in_arg]. cbn. rewrite IH by auto. reflexivity.
Qed.

(* an unquoted rendered token followed by a space: terminator is left in the suffix *)
Lemma in_arg_unquoted rs : forallb ok_u rs = true -> forall rest acc,
  in_arg arg_flags (flat_map emit rs ++ c_sp :: rest) acc false false false
  = POk (c_sp :: rest, finish (rev (map denote rs) ++ acc) false).
Proof.
  induction rs as [|r rs IH]; intros Hok rest acc.
  - cbn. reflexivity.
  - cbn [forallb] in Hok. apply andb_true_iff in Hok as [Hr Hrs].
    cbn [flat_map map rev]. rewrite <- ?app_assoc.
    destruct r as [c| | | | |]; cbn [emit denote app].
    + cbn in Hr. apply negb_true_iff in Hr. apply orb_false_iff in Hr as [Hr H3]. apply orb_false_iff in Hr as [H1 H2].
      cbn [in_arg]. rewrite H1. cbn. rewrite H2, H3. cbn.
      rewrite IH by auto. reflexivity.
    + cbn [in_arg]. cbn. rewrite IH by auto. reflexivity.
    + cbn [in_arg]. cbn. rewrite IH by auto. reflexivity.
    + cbn [in_arg]. cbn. rewrite IH by auto. reflexivity.
    + cbn [in_arg]. cbn. rewrite IH by auto. reflexivity.
    + cbn [in_arg]. cbn. rewrite IH by auto. reflexivity.
Qed.
Print Assumptions in_arg_quoted.
